// C07 harness: one in-process storage node (real tsdb engine, database, shard, data family) with a real write-ahead log
// partition whose local replicator is driven one step at a time; histories of log append / replica step (whole, or
// region by region through the scheduling points) / metadata+index flush / data flush (with a crash image between the
// data commit and the log acknowledgement) / log sync+gc / crash + restart on a copy of the node directory.
package main

import (
	"fmt"
	"github.com/lindb/lindb/series/metric"
	"github.com/lindb/lindb/sql/stmt"
	"github.com/lindb/roaring"
	"os"
	"path/filepath"
	"sort"
	"strings"
	"time"

	protoMetricsV1 "github.com/lindb/common/proto/gen/v1/linmetrics"

	"github.com/lindb/lindb/pkg/option"
	"github.com/lindb/lindb/pkg/timeutil"
	"github.com/lindb/lindb/pkg/verifhook"
	"github.com/lindb/lindb/replica"

	"lindbverif/md"
	"lindbverif/node"
	"lindbverif/vh"
)

var (
	interval   = timeutil.Interval(10 * 1000)
	familyTime = time.Date(2019, 7, 2, 19, 0, 0, 0, time.UTC).UnixMilli()
)

type world struct {
	root    string
	gen     int
	n       *node.Node
	la      int
	fresh   map[int]bool
	bad     map[int]bool // entries appended as bytes the replicator cannot decompress
	out     *vh.Out
	failed  bool
	abandon bool
	evs     []string
	evJ     []string
	obs     []string
	// a replica step in progress
	actor *actor
	kinds map[string]int
	// a data flush that is waiting for the replica step in progress
	pendingFlush chan error
	pendingFiles int
}

type actor struct {
	resume chan struct{}
	parked chan string
	done   chan struct{}
	at     string
}

var current *actor

func hook(p string) {
	a := current
	if a == nil || (p != "tsdb.family.write.afterGetMemDB" && p != "replica.local.beforeCommitSequence") {
		return
	}
	a.parked <- p
	<-a.resume
}
func (a *actor) wait() string {
	select {
	case p := <-a.parked:
		a.at = p
	case <-a.done:
		a.at = "done"
	}
	current = nil
	return a.at
}

func (w *world) fail(what string, err error) {
	w.failed = true
	w.out.Violation(0, "harness", fmt.Sprintf("%s: %v", what, err), nil)
}

func nameOf(e int, fresh bool) string {
	if fresh {
		return fmt.Sprintf("x%d", e)
	}
	return "m0"
}

// every entry is a series of its own tag value (three per metric name)
func hostOf(e int) string { return fmt.Sprintf("h%d", e%3) }

// seriesOfTag: the series the index gives for metric + host=<v>: tag key of the schema, tag value id of the dictionary,
// postings of the inverted index - the way a query with a tag condition finds its data
func (w *world) seriesOfTag(mid uint32, host string) *roaring.Bitmap {
	schema, err := w.n.DB.MetaDB().GetSchema(metric.ID(mid))
	if err != nil || schema == nil {
		return roaring.New()
	}
	tm, ok := schema.TagKeys.Find("host")
	if !ok {
		return roaring.New()
	}
	vids, err := w.n.DB.MetaDB().FindTagValueDsByExpr(tm.ID, &stmt.EqualsExpr{Key: "host", Value: host})
	if err != nil || vids == nil || vids.IsEmpty() {
		return roaring.New()
	}
	sids, err := w.n.Shard.IndexDB().GetSeriesIDsByTagValueIDs(tm.ID, vids)
	if err != nil || sids == nil {
		return roaring.New()
	}
	return sids
}

func (w *world) appendEntry(fresh bool) {
	w.la++
	e := w.la
	w.fresh[e] = fresh
	pm := &protoMetricsV1.Metric{Name: nameOf(e, fresh), Namespace: "ns", Timestamp: familyTime + int64(e)*interval.Int64(),
		Tags:         []*protoMetricsV1.KeyValue{{Key: "host", Value: hostOf(e)}},
		SimpleFields: []*protoMetricsV1.SimpleField{{Name: "f1", Type: protoMetricsV1.SimpleFieldType_DELTA_SUM, Value: 1}}}
	if err := w.n.Part.WriteLog(node.Compressed(node.Block(pm))); err != nil {
		w.fail("WriteLog", err)
	}
}

// appendBad appends an entry that is not a compressed block: the replicator cannot decode it.
func (w *world) appendBad() {
	w.la++
	w.bad[w.la] = true
	if err := w.n.Part.WriteLog([]byte{0xff, 0x00, 0xfe, 0x01, 0xfd, 0x02, 0xfc}); err != nil {
		w.fail("WriteLog", err)
	}
}

func (w *world) canConsume() bool { return w.n.Group.ConsumedSeq() < w.n.Log.Queue().AppendedSeq() }

// physical content of the family's files: entry -> number of times its point is stored, and the entries whose metric id
// does not resolve to their name through the node's metadata
func (w *world) flushed() (map[int]int, []int) {
	counts := map[int]int{}
	bad := map[int]bool{}
	snap := w.n.Family.Family().GetSnapshot()
	defer snap.Close()
	for _, fm := range snap.GetCurrent().GetAllFiles() {
		r, err := snap.GetReader(fm.GetFileNumber())
		if err != nil {
			w.fail("reader", err)
			continue
		}
		it := r.Iterator()
		for it.HasNext() {
			metricID := it.Key()
			d, err := md.DecodeBlock(it.Value())
			if err != nil {
				w.fail("decode", err)
				continue
			}
			for sid, fmv := range d.Series {
				for _, slots := range fmv {
					for slot, v := range slots {
						e := int(slot)
						counts[e] += int(v)
						id, err := w.n.DB.MetaDB().GetMetricID("ns", nameOf(e, w.fresh[e]))
						if err != nil || uint32(id) != metricID {
							bad[e] = true
						} else if !w.seriesOfTag(metricID, hostOf(e)).Contains(sid) {
							bad[e] = true // stored under a series the entry's tags do not lead to
						}
					}
				}
			}
		}
	}
	var bs []int
	for e := range bad {
		bs = append(bs, e)
	}
	sort.Ints(bs)
	return counts, bs
}

func (w *world) observe() string {
	q := w.n.Log.Queue()
	pseq := int64(-1)
	snap := w.n.Family.Family().GetSnapshot()
	if s, ok := snap.GetCurrent().GetSequences()[int32(node.NodeID)]; ok {
		pseq = s
	}
	snap.Close()
	counts, bad := w.flushed()
	var es []int
	for e := range counts {
		es = append(es, e)
	}
	sort.Ints(es)
	var pd []string
	for _, e := range es {
		pd = append(pd, vh.Pair(fmt.Sprintf("%d", e), fmt.Sprintf("%d", counts[e])))
	}
	return fmt.Sprintf("{| o_la := %d; o_gcd := %d; o_k := %d; o_c := %d; o_pseq := %d; o_pdata := %s; o_unresolved := %s |}",
		q.AppendedSeq()+1, q.AcknowledgedSeq()+1, w.n.Group.AcknowledgedSeq()+1, w.n.Group.ConsumedSeq()+1, pseq+1, vh.List(pd), vh.NatList(bad))
}

func (w *world) emit(ev string) {
	w.evs = append(w.evs, ev)
	w.evJ = append(w.evJ, ev)
	w.obs = append(w.obs, w.observe())
	w.kinds[strings.Fields(ev)[0]]++
}

func (w *world) restartFrom(img string) {
	old := w.n
	old.Close()
	_ = os.RemoveAll(old.Dir)
	n, err := node.Open(img, old.Intervals, familyTime, true)
	if err != nil {
		w.fail("restart", err)
		return
	}
	w.n = n
}

func (w *world) crashRestart() {
	w.gen++
	img := filepath.Join(w.root, fmt.Sprintf("img%d", w.gen))
	if err := w.n.Image(img); err != nil {
		w.fail("image", err)
		return
	}
	w.restartFrom(img)
	w.emit("Restart")
}

// data flush; crashAfterCommit: the node dies between the data commit and the log acknowledgement
func (w *world) flushData(crashAfterCommit bool) {
	img := ""
	inFlush := true
	verifhook.Set(func(p string) {
		if crashAfterCommit && inFlush && p == "kv.flush.afterCommit" && img == "" {
			w.gen++
			img = filepath.Join(w.root, fmt.Sprintf("img%d", w.gen))
			if err := w.n.Image(img); err != nil {
				w.fail("image", err)
			}
		}
		hook(p)
	})
	snapBefore := w.n.Family.Family().GetSnapshot()
	filesBefore := len(snapBefore.GetCurrent().GetAllFiles())
	snapBefore.Close()
	var err error
	if w.actor != nil {
		// a replica step is parked inside its critical section: the flush may have to wait for it
		ch := make(chan error, 1)
		fam := w.n.Family
		go func() { ch <- fam.Flush() }()
		select {
		case err = <-ch:
		case <-time.After(300 * time.Millisecond):
			w.pendingFlush, w.pendingFiles = ch, filesBefore
			w.out.Count("flush-waited-for-replica-step")
			return
		}
	} else {
		err = w.n.Family.Flush()
	}
	inFlush = false
	verifhook.Set(hook)
	if err != nil {
		w.fail("family flush", err)
		return
	}
	w.afterFlush(filesBefore, crashAfterCommit, img)
}

// metaFlushCrash: the metadata is flushed, the shard index flush dies right after its k-th store commit (the node restarts
// from the directory as it is then). For the model: the metadata + index flush, then a restart - what the index lost is
// rebuilt by the replay of the log.
func (w *world) metaFlushCrash(k int) {
	if err := w.n.DB.FlushMeta(); err != nil {
		w.fail("meta flush", err)
		return
	}
	w.n.DB.WaitFlushMetaCompleted()
	img := ""
	commits := 0
	verifhook.Set(func(p string) {
		if p == "kv.flush.afterCommit" {
			commits++
			if commits == k && img == "" {
				w.gen++
				img = filepath.Join(w.root, fmt.Sprintf("img%d", w.gen))
				if err := w.n.Image(img); err != nil {
					w.fail("image", err)
				}
			}
		}
		hook(p)
	})
	err := w.n.Shard.FlushIndex()
	w.n.Shard.WaitFlushIndexCompleted()
	verifhook.Set(hook)
	if err != nil {
		w.fail("index flush", err)
		return
	}
	w.emit("MetaFlush")
	if img != "" && !w.failed {
		w.out.Count("crash-inside-the-index-flush")
		w.restartFrom(img)
		w.emit("Restart")
	}
}

// otherHour: a write into another hour of the same day - a data family (and kv family of the day's store) that did not
// exist before the last restart - flushed at once. It shares nothing with the family under test but the kv store and its
// manifest; the model does not see it (only the metadata flush that precedes the data flush is an event).
func (w *world) otherHour() {
	hour := int64(1 + w.kinds["Restart"]%5)
	fam, err := w.n.Shard.GetOrCrateDataFamily(familyTime + hour*3600000)
	if err != nil {
		w.fail("other hour: family", err)
		return
	}
	rows := node.Rows("ns", "otherhour", map[string]string{"host": "o"}, map[string]float64{"f1": 1}, familyTime+hour*3600000+5000)
	if err := fam.WriteRows(rows); err != nil {
		w.fail("other hour: write", err)
		return
	}
	if err := w.n.FlushMetaAndIndex(); err != nil {
		w.fail("meta/index flush", err)
		return
	}
	w.emit("MetaFlush")
	if err := fam.Flush(); err != nil {
		w.fail("other hour: flush", err)
	}
	w.out.Count("other-hour-family-flushed")
}

// expireCheck: Partition.IsExpire as the periodic WAL clean-up runs it (writeAheadLog.destroy deletes the partition's log
// directory when it answers true).  For the model it is the Sync + GC it starts with; its verdict is judged directly:
// "all data can be deleted" only if every appended entry is acknowledged, i.e. stored with flushed data.
func (w *world) expireCheck() {
	w.finishPendingFlush()
	verdict := w.n.Part.IsExpire()
	w.emit("WalSync")
	w.out.Count("expire-checks")
	app, ack := w.n.Log.Queue().AppendedSeq(), w.n.Group.AcknowledgedSeq()
	if verdict && ack < app {
		w.out.Violation(0, "log-deletable-with-unflushed-entries",
			fmt.Sprintf("Partition.IsExpire answers true (the clean-up task deletes the log directory) while entries %d..%d are not acknowledged: applied to the memory database at most, a crash now loses them",
				ack+1, app), nil)
		// the verdict has stopped the replicator and closed its consumer group: the node is left as it is
		w.failed, w.abandon = true, true
	}
}

func (w *world) finishPendingFlush() {
	if w.pendingFlush == nil {
		return
	}
	select {
	case err := <-w.pendingFlush:
		if err != nil {
			w.fail("family flush", err)
		}
	case <-time.After(5 * time.Second):
		w.fail("family flush", fmt.Errorf("still blocked after the replica step finished"))
	}
	verifhook.Set(hook)
	w.pendingFlush = nil
	w.afterFlush(w.pendingFiles, false, "")
}

func (w *world) afterFlush(filesBefore int, crashAfterCommit bool, img string) {
	snapAfter := w.n.Family.Family().GetSnapshot()
	filesAfter := len(snapAfter.GetCurrent().GetAllFiles())
	snapAfter.Close()
	if crashAfterCommit && img != "" && filesAfter != filesBefore {
		w.restartFrom(img)
		w.evs = append(w.evs, "FlushCommit")
		w.evJ = append(w.evJ, "FlushCommit")
		w.obs = append(w.obs, "")
		w.kinds["FlushCommit"]++
		w.emit("Restart")
		return
	}
	if filesAfter == filesBefore {
		return // nothing to flush: no commit, no acknowledgement callback
	}
	// commit and acknowledgement happened inside one call: the state in between is not observable
	w.evs = append(w.evs, "FlushCommit")
	w.evJ = append(w.evJ, "FlushCommit")
	w.obs = append(w.obs, "")
	w.kinds["FlushCommit"]++
	w.emit("FlushAck")
}

func (w *world) replicaWhole() {
	if !w.canConsume() || w.actor != nil {
		return
	}
	replica.VerifReplicaStep(w.n.Part, node.NodeID)
	w.emit("Replica")
}

func (w *world) r1() {
	if !w.canConsume() || w.actor != nil {
		return
	}
	if w.bad[int(w.n.Group.ConsumedSeq())+2] {
		// the regions of a step are modelled for entries that carry rows only
		w.replicaWhole()
		return
	}
	a := &actor{resume: make(chan struct{}), parked: make(chan string), done: make(chan struct{})}
	current = a
	part := w.n.Part
	go func() {
		replica.VerifReplicaStep(part, node.NodeID)
		close(a.done)
	}()
	if a.wait() != "done" {
		w.actor = a
	}
	w.emit("R1")
}
func (w *world) rnext(ev string) {
	if w.actor == nil {
		return
	}
	current = w.actor
	w.actor.resume <- struct{}{}
	if w.actor.wait() == "done" {
		w.actor = nil
	}
	w.emit(ev)
	if w.actor == nil {
		w.finishPendingFlush()
	}
}

func runHistory(out *vh.Out, root string, id int, name, sig string, disc bool, script []string) {
	w := &world{root: filepath.Join(root, fmt.Sprintf("h%d", id)), fresh: map[int]bool{}, bad: map[int]bool{}, out: out, kinds: map[string]int{}}
	_ = os.MkdirAll(w.root, 0o755)
	defer os.RemoveAll(w.root)
	n, err := node.Open(filepath.Join(w.root, "img0"), option.Intervals{{Interval: interval}}, familyTime, true)
	if err != nil {
		out.Violation(0, "open", err.Error(), nil)
		return
	}
	w.n = n
	verifhook.Set(hook)
	for _, s := range script {
		if w.failed {
			break
		}
		switch s {
		case "a":
			w.appendEntry(false)
			w.emit("Append false")
		case "A":
			w.appendEntry(true)
			w.emit("Append true")
		case "z":
			w.appendBad()
			w.emit("AppendBad")
		case "r":
			w.replicaWhole()
		case "r1":
			w.r1()
		case "r2":
			if w.actor != nil && w.actor.at == "tsdb.family.write.afterGetMemDB" {
				w.rnext("R2")
			}
		case "r3":
			if w.actor != nil && w.actor.at == "replica.local.beforeCommitSequence" {
				w.rnext("R3")
			}
		case "m":
			if err := w.n.FlushMetaAndIndex(); err != nil {
				w.fail("meta/index flush", err)
			}
			w.emit("MetaFlush")
		case "M":
			if w.actor == nil && w.pendingFlush == nil {
				w.metaFlushCrash(1 + w.kinds["MetaFlush"]%3)
			}
		case "f":
			w.flushData(false)
		case "F":
			if w.actor == nil {
				w.flushData(true)
			}
		case "s":
			w.n.Log.Sync()
			w.n.Log.Queue().GC()
			w.emit("WalSync")
		case "b":
			if w.actor == nil {
				if err := w.n.RebuildWAL(); err != nil {
					w.fail("rebuild wal", err)
				}
				w.emit("Rebuild")
			}
		case "x":
			if w.actor == nil {
				w.crashRestart()
			}
		case "o":
			if w.actor == nil && w.pendingFlush == nil {
				w.otherHour()
			}
		case "e":
			// the WAL clean-up task looks at the partition (the family lies years back, so it is expired by time), then
			// the node crashes: the verdict "nothing left, the log can be deleted" stops the replicator, so a restart follows
			if w.actor == nil {
				w.expireCheck()
				if !w.failed {
					w.crashRestart()
				}
			}
		}
	}
	// drain a replica step in progress
	for w.actor != nil && !w.failed {
		if w.actor.at == "tsdb.family.write.afterGetMemDB" {
			w.rnext("R2")
		} else {
			w.rnext("R3")
		}
	}
	// the end of every history: the clean-up task's look at the partition, crash, replay everything the log still offers,
	// flush in the checker's order
	if !w.failed {
		w.expireCheck()
	}
	if !w.failed {
		w.crashRestart()
		for w.canConsume() && !w.failed {
			w.replicaWhole()
		}
		if err := w.n.FlushMetaAndIndex(); err != nil {
			w.fail("meta/index flush", err)
		}
		w.emit("MetaFlush")
		w.flushData(false)
	}
	verifhook.Set(nil)
	if !w.abandon {
		w.n.Close()
	}
	var obs []string
	for _, o := range w.obs {
		if o == "" {
			obs = append(obs, "None")
		} else {
			obs = append(obs, "Some "+o)
		}
	}
	for k, v := range w.kinds {
		out.CountN("ev:"+k, v)
	}
	d := map[string]interface{}{"kind": "history", "name": name, "script": strings.Join(script, " "), "events": w.evJ, "disciplined": disc}
	if sig != "" {
		d["sig"] = sig
	}
	idx := out.Case(d, w.kinds["Restart"] >= 2 && w.kinds["FlushCommit"] >= 2 && w.kinds["Append"] >= 3)
	out.Check(idx, fmt.Sprintf("check_hist %s %d\n %s\n %s", vh.Bool(disc), w.la, vh.List(w.evs), vh.List(obs)))
}

func randomScript(r *vh.Rand) []string {
	n := r.Range(8, 40)
	var sc []string
	for i := 0; i < n; i++ {
		x := r.Intn(100)
		switch {
		case x < 22:
			sc = append(sc, "a")
		case x < 25:
			sc = append(sc, "z")
		case x < 32:
			sc = append(sc, "A")
		case x < 62:
			sc = append(sc, "r")
		case x < 74:
			// the flush checker's order with nothing in between
			sc = append(sc, "m", "f")
		case x < 82:
			sc = append(sc, "m", "F")
		case x < 84:
			sc = append(sc, "m")
		case x < 86:
			// the index flush dies after one of its store commits
			sc = append(sc, "M")
		case x < 89:
			sc = append(sc, "s")
		case x < 91:
			// another hour of the day gets its first write (new kv family in the reopened day store) and is flushed
			sc = append(sc, "o")
		case x < 93:
			// the family keeps the callbacks of every replicator ever registered; a rebuilt partition is followed by a
			// crash here, so that only the live replicator acknowledges (see DESIGN, C07)
			sc = append(sc, "b", "x")
		case x < 96:
			sc = append(sc, "e")
		default:
			sc = append(sc, "x")
		}
	}
	return sc
}

func main() {
	cfg := vh.ParseFlags()
	r := vh.NewRand(cfg.Seed)
	out := vh.NewOut(cfg.Out, "From Coq Require Import List Arith Bool.\nImport ListNotations.\nFrom LinDBV.C07 Require Import Model Check.\nOpen Scope nat_scope.\n")
	out.ShardSize = 10
	root, err := os.MkdirTemp("", "verif-c07-")
	if err != nil {
		panic(err)
	}
	defer os.RemoveAll(root)
	f := strings.Fields
	if sc := os.Getenv("C07_SCRIPT"); sc != "" { // debugging aid: one script only
		runHistory(out, root, 0, "debug", "", true, f(sc))
		out.Finish()
		return
	}
	runHistory(out, root, 0, "crash at every stage of a flush, sync, replay", "", true, f("a a r r m F r r a r m f s x r a A r m f s a r b x r a r m f a r b x"))
	runHistory(out, root, 1, "a flush freezes the memory database while a replica step holds it (lost write)", "flush-inside-replica-step-lost-write", true,
		f("a a a r r r m f a a a r m r1 f r2 r3 r m f")) // the three series exist before the part that matters
	runHistory(out, root, 2, "a flush falls between the row write and CommitSequence (double application)", "flush-inside-replica-step-double-apply", true,
		f("a a a r r r m f a a r m r1 r2 f r3 x r m f"))
	runHistory(out, root, 3, "a new metric is written after the metadata flush and before the data flush", "new-name-between-meta-and-data-flush", false,
		f("a r m A r f x A r"))
	runHistory(out, root, 5, "another hour of the day is first written after a restart, flushed, then another restart", "", true,
		f("a a r r m f a a r x r r o a r m f x r a r o m f x"))
	runHistory(out, root, 6, "two families of the shard get their memory databases at the same moment; the other one is flushed first", "", true,
		f("a r m f x a r o m f x a r o a r m f"))
	runHistory(out, root, 7, "the index flush dies after its first / second / third store commit, the log is replayed", "", true,
		f("a r M r a r m f x a A r M r r a r M r m f x"))
	runHistory(out, root, 4, "entries the replicator cannot decode, between applied entries, directly after the acknowledged position, before a crash", "", true,
		f("a a z a r r r r x r r r r m f z r s x a z z a r r r r m f s x"))
	for i := 0; i < cfg.N; i++ {
		runHistory(out, root, 8+i, "random", "", true, randomScript(r))
	}
	out.Notes = append(out.Notes, "every history ends with a crash image, a replay of everything the log still offers, and a flush in the flush checker's order; a crash is a copy of the node directory (tsdb + wal) opened as a new node")
	out.Finish()
}
