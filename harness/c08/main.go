// C08 harness: a real leader partition (fan-out queue + remote replicator) and a real follower partition behind the
// real ReplicaHandler, connected by an in-process stream that can fail on Send / Recv; faults: follower restart,
// follower log loss, leader directory restored from an older copy, follower offline/online, leader GC.
package main

import (
	"context"
	"encoding/binary"
	"errors"
	"fmt"
	"io"
	"os"
	"os/exec"
	"path/filepath"
	"strings"
	"time"

	"google.golang.org/grpc"
	"google.golang.org/grpc/metadata"

	storagerpc "github.com/lindb/lindb/app/storage/rpc"
	"github.com/lindb/lindb/coordinator/storage"
	"github.com/lindb/lindb/models"
	"github.com/lindb/lindb/pkg/queue"
	"github.com/lindb/lindb/pkg/queue/page"
	"github.com/lindb/lindb/pkg/timeutil"
	protoReplicaV1 "github.com/lindb/lindb/proto/gen/v1/replica"
	"github.com/lindb/lindb/replica"
	"github.com/lindb/lindb/rpc"
	"github.com/lindb/lindb/tsdb"

	"lindbverif/vh"
)

const (
	leaderID   = models.NodeID(1)
	followerID = models.NodeID(2)
)

// ---- fakes around the real code ----
type fakeDatabase struct{ tsdb.Database }

func (fakeDatabase) Name() string { return "db" }

type fakeShard struct{ tsdb.Shard }

func (fakeShard) Database() tsdb.Database { return fakeDatabase{} }
func (fakeShard) ShardID() models.ShardID { return 1 }
func (fakeShard) Indicator() string       { return "db/1" }

type fakeFamily struct{ tsdb.DataFamily }

func (fakeFamily) TimeRange() timeutil.TimeRange      { return timeutil.TimeRange{Start: 0, End: 3600000} }
func (fakeFamily) AckSequence(int32, func(seq int64)) {}
func (fakeFamily) Retain()                            {}
func (fakeFamily) Release()                           {}

type stateMgr struct {
	storage.StateManager
	live bool
	fn   func(models.NodeStateType)
}

func (m *stateMgr) GetLiveNode(id models.NodeID) (models.StatefulNode, bool) {
	return models.StatefulNode{ID: id}, m.live
}
func (m *stateMgr) WatchNodeStateChangeEvent(_ models.NodeID, fn func(models.NodeStateType)) {
	m.fn = fn
}

// follower side: the real handler over a fake WAL manager that returns the current follower partition
type walMgr struct {
	replica.WriteAheadLogManager
	w *world
}

func (m *walMgr) GetOrCreateLog(string) replica.WriteAheadLog { return &wal{w: m.w} }

type wal struct {
	replica.WriteAheadLog
	w *world
}

func (l *wal) GetOrCreatePartition(models.ShardID, int64, models.NodeID) (replica.Partition, error) {
	if l.w.fPart == nil {
		return nil, errors.New("follower down")
	}
	return l.w.fPart, nil
}

// the in-process stream
type stream struct {
	grpc.ClientStream
	w        *world
	ctx      context.Context
	toSrv    chan *protoReplicaV1.ReplicaRequest
	toCli    chan *protoReplicaV1.ReplicaResponse
	broken   bool
	srvDone  chan struct{}
	closeSnd bool
}

func (s *stream) Send(req *protoReplicaV1.ReplicaRequest) error {
	if s.broken || !s.w.sendOK {
		s.broken = true
		return errors.New("verif: send failed")
	}
	select {
	case s.toSrv <- req:
		return nil
	case <-s.srvDone:
		s.broken = true
		return errors.New("verif: server gone")
	}
}
func (s *stream) Recv() (*protoReplicaV1.ReplicaResponse, error) {
	select {
	case resp := <-s.toCli:
		if !s.w.recvOK {
			s.broken = true
			return nil, errors.New("verif: recv failed")
		}
		return resp, nil
	case <-s.srvDone:
		s.broken = true
		return nil, errors.New("verif: server gone")
	}
}
func (s *stream) CloseSend() error {
	if !s.closeSnd {
		s.closeSnd = true
		close(s.toSrv)
	}
	return nil
}

type srvStream struct {
	grpc.ServerStream
	s *stream
}

func (ss *srvStream) Context() context.Context { return ss.s.ctx }
func (ss *srvStream) Recv() (*protoReplicaV1.ReplicaRequest, error) {
	req, ok := <-ss.s.toSrv
	if !ok {
		return nil, io.EOF
	}
	return req, nil
}
func (ss *srvStream) Send(resp *protoReplicaV1.ReplicaResponse) error {
	ss.s.toCli <- resp
	return nil
}

type client struct{ w *world }

func (c *client) Reset(ctx context.Context, in *protoReplicaV1.ResetIndexRequest, _ ...grpc.CallOption) (*protoReplicaV1.ResetIndexResponse, error) {
	return c.w.handler.Reset(ctx, in)
}
func (c *client) GetReplicaAckIndex(ctx context.Context, in *protoReplicaV1.GetReplicaAckIndexRequest, _ ...grpc.CallOption) (*protoReplicaV1.GetReplicaAckIndexResponse, error) {
	return c.w.handler.GetReplicaAckIndex(ctx, in)
}
func (c *client) Replica(ctx context.Context, _ ...grpc.CallOption) (protoReplicaV1.ReplicaService_ReplicaClient, error) {
	md, _ := metadata.FromOutgoingContext(ctx)
	s := &stream{w: c.w, ctx: metadata.NewIncomingContext(context.Background(), md),
		toSrv: make(chan *protoReplicaV1.ReplicaRequest), toCli: make(chan *protoReplicaV1.ReplicaResponse, 1), srvDone: make(chan struct{})}
	c.w.cur = s
	go func() {
		defer close(s.srvDone)
		_ = c.w.handler.Replica(&srvStream{s: s})
	}()
	return s, nil
}

type cliFct struct {
	rpc.ClientStreamFactory
	w *world
}

func (f *cliFct) CreateReplicaServiceClient(models.Node) (protoReplicaV1.ReplicaServiceClient, error) {
	return &client{w: f.w}, nil
}

// ---- the world ----
type world struct {
	root    string
	dirL    string
	dirF    string
	snapDir string
	logL    queue.FanOutQueue
	logF    queue.FanOutQueue
	lPart   replica.Partition
	fPart   replica.Partition
	grp     queue.ConsumerGroup
	sm      *stateMgr
	handler *storagerpc.ReplicaHandler
	cur     *stream
	sendOK  bool
	recvOK  bool
	fresh   uint64
	pending chan struct{}
	out     *vh.Out
	failed  bool
}

func (w *world) fail(what string, err error) {
	w.failed = true
	w.out.Violation(0, "harness", fmt.Sprintf("%s: %v", what, err), nil)
}

func (w *world) openLeader() error {
	logL, err := queue.NewFanOutQueue(w.dirL, 0)
	if err != nil {
		return err
	}
	w.logL = logL
	w.lPart = replica.NewPartition(context.Background(), fakeShard{}, fakeFamily{}, leaderID, logL, &cliFct{w: w}, w.sm)
	if err := w.lPart.BuildReplicaForLeader(leaderID, []models.NodeID{followerID}); err != nil {
		return err
	}
	grp, err := logL.GetOrCreateConsumerGroup(fmt.Sprintf("%d", followerID))
	if err != nil {
		return err
	}
	w.grp = grp
	return nil
}

func (w *world) closeLeader() {
	if w.lPart != nil {
		w.lPart.Stop()
		_ = w.lPart.Close()
	}
	if w.logL != nil {
		w.logL.Close()
	}
	w.lPart, w.logL = nil, nil
}

func (w *world) openFollower() error {
	logF, err := queue.NewFanOutQueue(w.dirF, 0)
	if err != nil {
		return err
	}
	w.logF = logF
	w.fPart = replica.NewPartition(context.Background(), fakeShard{}, fakeFamily{}, followerID, logF, nil, nil)
	return nil
}

func (w *world) closeFollower() {
	if w.cur != nil {
		w.cur.broken = true
		_ = w.cur.CloseSend()
		<-w.cur.srvDone
		w.cur.closeSnd = true
	}
	if w.fPart != nil {
		_ = w.fPart.Close()
	}
	if w.logF != nil {
		w.logF.Close()
	}
	w.fPart, w.logF = nil, nil
}

func msgID(b []byte) int {
	if len(b) < 8 {
		return -1
	}
	return int(binary.LittleEndian.Uint64(b))
}

func reads(q queue.Queue, hi int64) string {
	var rs []string
	for i := int64(-1); i <= hi; i++ {
		b, err := q.Get(i)
		v := "None"
		if err == nil {
			v = fmt.Sprintf("Some %d%%nat", msgID(b))
		}
		rs = append(rs, vh.Pair(vh.Z(i), v))
	}
	return vh.List(rs)
}

func (w *world) observe() string {
	lq, fq := w.logL.Queue(), w.logF.Queue()
	hi := lq.AppendedSeq()
	if fq.AppendedSeq() > hi {
		hi = fq.AppendedSeq()
	}
	hi += 2
	return fmt.Sprintf("{| o_la := %s; o_lq := %s; o_c := %s; o_k := %s; o_fa := %s; o_fq := %s; o_ready := %s; o_lreads := %s; o_freads := %s |}",
		vh.Z(lq.AppendedSeq()), vh.Z(lq.AcknowledgedSeq()), vh.Z(w.grp.ConsumedSeq()), vh.Z(w.grp.AcknowledgedSeq()),
		vh.Z(fq.AppendedSeq()), vh.Z(fq.AcknowledgedSeq()), vh.Bool(replica.VerifReplicatorReady(w.lPart, followerID)),
		reads(lq, hi), reads(fq, hi))
}

type evJ struct {
	K    string `json:"k"`
	Send bool   `json:"send_ok"`
	Recv bool   `json:"recv_ok"`
}

func (e evJ) coq() string {
	switch e.K {
	case "append":
		return "LAppend"
	case "step":
		return fmt.Sprintf("Step %s %s", vh.Bool(e.Send), vh.Bool(e.Recv))
	case "stepfail":
		return "StepAppendFail"
	case "bigappend":
		return "LAppend"
	case "handshake":
		return "Handshake"
	case "frestart":
		return "FollowerRestart"
	case "flose":
		return "FollowerLoseLog"
	case "gc":
		return "LeaderGC"
	case "snapshot":
		return "LeaderSnapshot"
	case "restore":
		return "LeaderRestore"
	case "offline":
		return "Offline"
	}
	return "Online"
}

func copyDir(src, dst string) error {
	_ = os.RemoveAll(dst)
	return exec.Command("cp", "-r", src, dst).Run()
}

// apply runs one event on the real system; returns false when the event was not applicable (then it is not recorded)
func (w *world) apply(e evJ) bool {
	ready := replica.VerifReplicatorReady(w.lPart, followerID)
	switch e.K {
	case "append":
		var b [8]byte
		binary.LittleEndian.PutUint64(b[:], w.fresh)
		if err := w.lPart.WriteLog(b[:]); err != nil {
			w.fail("WriteLog", err)
		}
		w.fresh++
	case "bigappend":
		// 16 MiB: eight of them fill a data page of the log exactly, the ninth needs a new page
		b := make([]byte, 16<<20)
		binary.LittleEndian.PutUint64(b[:8], w.fresh)
		if err := w.lPart.WriteLog(b); err != nil {
			w.fail("WriteLog", err)
		}
		w.fresh++
	case "step", "stepfail":
		if w.pending != nil {
			return false
		}
		w.sendOK, w.recvOK = e.Send, e.Recv
		if e.K == "stepfail" {
			// the follower's log cannot get its next data page once (disk full, too many open files, ...)
			w.sendOK, w.recvOK = true, true
			failPageUnder, failFired = filepath.Join(w.dirF, "data"), false
			defer func() {
				if !failFired {
					w.fail("stepfail", fmt.Errorf("the injected page failure did not fire (the follower's append needed no new page)"))
				}
				failPageUnder = ""
			}()
		}
		if !ready && !w.sm.live {
			// IsReady blocks until the follower is online again: the step stays pending
			done := make(chan struct{})
			w.pending = done
			go func() {
				defer close(done)
				replica.VerifReplicaStep(w.lPart, followerID)
			}()
			time.Sleep(20 * time.Millisecond)
			return true
		}
		// Consume blocks while there is nothing to consume: only the ready check + connect runs then
		willConsume := func() bool { return w.grp.ConsumedSeq()+1 <= w.logL.Queue().AppendedSeq() }
		if ready {
			if willConsume() {
				replica.VerifReplicaStep(w.lPart, followerID)
			} else {
				replica.VerifHandshake(w.lPart, followerID)
			}
		} else {
			// the handshake may move the positions: decide after it
			replica.VerifHandshake(w.lPart, followerID)
			if willConsume() {
				replica.VerifReplicaStep(w.lPart, followerID)
			}
		}
		w.sendOK, w.recvOK = true, true
	case "handshake":
		if w.pending != nil || (!ready && !w.sm.live) {
			return false
		}
		replica.VerifHandshake(w.lPart, followerID)
	case "frestart":
		w.closeFollower()
		if err := w.openFollower(); err != nil {
			w.fail("reopen follower", err)
		}
	case "flose":
		w.closeFollower()
		_ = os.RemoveAll(w.dirF)
		if err := w.openFollower(); err != nil {
			w.fail("recreate follower", err)
		}
	case "gc":
		w.logL.Sync()
		w.logL.Queue().GC()
	case "snapshot":
		if err := copyDir(w.dirL, w.snapDir); err != nil {
			w.fail("snapshot", err)
		}
	case "restore":
		if _, err := os.Stat(w.snapDir); err != nil || w.pending != nil {
			return false
		}
		if w.cur != nil {
			w.cur.broken = true
			_ = w.cur.CloseSend()
		}
		w.closeLeader()
		if err := copyDir(w.snapDir, w.dirL); err != nil {
			w.fail("restore", err)
		}
		if err := w.openLeader(); err != nil {
			w.fail("reopen leader", err)
		}
	case "offline":
		w.sm.live = false
	case "online":
		w.sm.live = true
		if w.sm.fn != nil {
			w.sm.fn(models.NodeOnline)
		}
		if w.pending != nil {
			w.sendOK, w.recvOK = true, true
			select {
			case <-w.pending:
			case <-time.After(5 * time.Second):
				w.fail("pending step", errors.New("did not finish after the follower came online"))
			}
			w.pending = nil
		}
	}
	return true
}

func runHistory(out *vh.Out, root string, id int, name, sig string, disc bool, evs []evJ) {
	w := &world{root: filepath.Join(root, fmt.Sprintf("h%d", id)), out: out, sendOK: true, recvOK: true, sm: &stateMgr{live: true}}
	_ = os.MkdirAll(w.root, 0o755)
	defer os.RemoveAll(w.root)
	w.dirL, w.dirF, w.snapDir = filepath.Join(w.root, "leader"), filepath.Join(w.root, "follower"), filepath.Join(w.root, "snap")
	w.handler = storagerpc.NewReplicaHandler(&walMgr{w: w})
	if err := w.openLeader(); err != nil {
		out.Violation(0, "open leader", err.Error(), nil)
		return
	}
	if err := w.openFollower(); err != nil {
		out.Violation(0, "open follower", err.Error(), nil)
		return
	}
	var done []evJ
	var coq, obs []string
	kinds := map[string]bool{}
	for _, e := range evs {
		if w.failed {
			break
		}
		if e.K == "online" && w.pending != nil {
			// the resumed step consumes after its handshake; Consume would block without data
			m := w.grp.ConsumedSeq()
			if a := w.grp.AcknowledgedSeq(); a > m {
				m = a
			}
			if a := w.logF.Queue().AppendedSeq(); a > m {
				m = a
			}
			for w.logL.Queue().AppendedSeq() <= m {
				w.apply(evJ{K: "append"})
				done = append(done, evJ{K: "append"})
				coq = append(coq, "LAppend")
				obs = append(obs, w.observe())
			}
		}
		if !w.apply(e) {
			continue
		}
		done = append(done, e)
		coq = append(coq, e.coq())
		obs = append(obs, w.observe())
		kinds[e.K] = true
		out.Count("ev:" + e.K)
		if e.K == "step" && (!e.Send || !e.Recv) {
			kinds["fault"] = true
			out.Count("ev:step-with-stream-failure")
		}
	}
	if w.pending != nil {
		for w.logL.Queue().AppendedSeq() <= w.grp.ConsumedSeq() || w.logL.Queue().AppendedSeq() <= w.logF.Queue().AppendedSeq() {
			w.apply(evJ{K: "append"})
			done = append(done, evJ{K: "append"})
			coq = append(coq, "LAppend")
			obs = append(obs, w.observe())
		}
		w.apply(evJ{K: "online"})
		done = append(done, evJ{K: "online"})
		coq = append(coq, "Online")
		obs = append(obs, w.observe())
	}
	w.closeFollower()
	w.closeLeader()
	d := map[string]interface{}{"kind": "history", "name": name, "events": done, "disciplined": disc}
	if sig != "" {
		d["sig"] = sig
	}
	nfaults := 0
	for _, k := range []string{"fault", "frestart", "flose", "restore", "offline", "gc"} {
		if kinds[k] {
			nfaults++
		}
	}
	idx := out.Case(d, kinds["append"] && kinds["step"] && nfaults >= 2)
	out.Check(idx, fmt.Sprintf("check_hist %s\n %s\n %s", vh.Bool(disc), vh.List(coq), vh.List(obs)))
}

func randomHistory(r *vh.Rand) []evJ {
	n := r.Range(10, 60)
	var evs []evJ
	dirty := false // after a restore no append before a handshake has completed (the protocol's limit, see DESIGN)
	offline := false
	for i := 0; i < n; i++ {
		x := r.Intn(100)
		switch {
		case x < 28:
			if dirty {
				if offline {
					continue
				}
				evs = append(evs, evJ{K: "step", Send: true, Recv: true})
				dirty = false
			} else {
				evs = append(evs, evJ{K: "append"})
			}
		case x < 68:
			if offline && dirty {
				evs = append(evs, evJ{K: "gc"})
				continue
			}
			e := evJ{K: "step", Send: !r.Chance(12), Recv: !r.Chance(12)}
			evs = append(evs, e)
			if !offline {
				dirty = false
			}
		case x < 72:
			if offline && dirty {
				continue
			}
			evs = append(evs, evJ{K: "handshake"})
			if !offline {
				dirty = false
			}
		case x < 77:
			evs = append(evs, evJ{K: "frestart"})
		case x < 81:
			evs = append(evs, evJ{K: "flose"})
		case x < 86:
			evs = append(evs, evJ{K: "gc"})
		case x < 90:
			evs = append(evs, evJ{K: "snapshot"})
		case x < 94:
			evs = append(evs, evJ{K: "restore"})
			dirty = true
		case x < 97:
			evs = append(evs, evJ{K: "offline"})
			offline = true
		default:
			evs = append(evs, evJ{K: "online"})
			offline = false
			// a pending step completes with a handshake
		}
	}
	evs = append(evs, evJ{K: "online"}, evJ{K: "step", Send: true, Recv: true}, evJ{K: "step", Send: true, Recv: true})
	return evs
}

func rep(e evJ, n int) []evJ {
	var out []evJ
	for i := 0; i < n; i++ {
		out = append(out, e)
	}
	return out
}

// page factories of the queues: the follower's data pages can be made to fail once
var (
	failPageUnder string
	failFired     bool
)

type ffactory struct {
	page.Factory
	path string
}

func (f ffactory) AcquirePage(index int64) (page.MappedPage, error) {
	if failPageUnder != "" && !failFired && index >= 1 && strings.HasPrefix(f.path, failPageUnder) {
		failFired = true
		return nil, fmt.Errorf("injected: cannot create page %d under %s", index, f.path)
	}
	return f.Factory.AcquirePage(index)
}

func main() {
	queue.VerifSetPageFactory(func(path string, ps int) (page.Factory, error) {
		f, err := page.NewFactory(path, ps)
		if err != nil {
			return nil, err
		}
		return ffactory{f, path}, nil
	})
	cfg := vh.ParseFlags()
	r := vh.NewRand(cfg.Seed)
	out := vh.NewOut(cfg.Out, "From Coq Require Import List ZArith Bool.\nImport ListNotations.\nFrom LinDBV.C08 Require Import Model Check.\nOpen Scope Z_scope.\n")
	out.ShardSize = 12
	root, err := os.MkdirTemp("", "verif-c08-")
	if err != nil {
		panic(err)
	}
	defer os.RemoveAll(root)
	ap, st, hs := evJ{K: "append"}, evJ{K: "step", Send: true, Recv: true}, evJ{K: "handshake"}
	cat := func(parts ...[]evJ) []evJ {
		var o []evJ
		for _, p := range parts {
			o = append(o, p...)
		}
		return o
	}
	all3 := cat(rep(ap, 3), []evJ{hs}, rep(st, 3))
	id := 0
	// the follower exactly one message ahead of a leader that lost its tail
	runHistory(out, root, id, "leader lost exactly one message", "", true,
		cat(all3, []evJ{{K: "snapshot"}, ap, st, {K: "restore"}, hs, ap, st, st}))
	id++
	// writes at the lost positions before the handshake (outside the discipline)
	runHistory(out, root, id, "leader lost its tail and appends before the handshake", "tail-loss-then-writes-diverge", false,
		cat(all3, []evJ{{K: "snapshot"}, ap, st, {K: "restore"}, ap, hs, st}))
	id++
	runHistory(out, root, id, "follower lost its log after the leader collected", "", true,
		cat(rep(ap, 4), []evJ{hs}, rep(st, 4), []evJ{{K: "gc"}, {K: "flose"}, ap, st, st, {K: "gc"}, {K: "step", Send: true, Recv: false}, st, st}))
	id++
	runHistory(out, root, id, "step blocked while the follower is offline", "", true,
		cat(rep(ap, 2), []evJ{hs, st, {K: "offline"}, {K: "frestart"}, st, st, ap, {K: "online"}, st, st}))
	id++
	// the follower's log cannot create its second data page when the ninth 16 MiB message arrives: the leader must not count
	// it as acknowledged; after a dropped connection the handshake resumes at that very message
	big := evJ{K: "bigappend"}
	runHistory(out, root, id, "the follower's append fails at a data page boundary", "", true,
		cat(rep(big, 9), []evJ{hs}, rep(st, 8), []evJ{{K: "stepfail"}, ap, st, {K: "step", Send: false, Recv: true}, st, st, st, ap, st}))
	id++
	for i := 0; i < cfg.N; i++ {
		runHistory(out, root, id, "random", "", true, randomHistory(r))
		id++
	}
	out.Notes = append(out.Notes, "the stream is in-process: Send/Recv failures are injected per step; a follower restart breaks the stream; 'restore' replaces the leader's log directory by an older copy (lost tail) and reopens it")
	out.Finish()
}
