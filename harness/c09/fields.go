package main

import (
	"errors"
	"fmt"
	"os"
	"path/filepath"

	"github.com/lindb/lindb/constants"
	"github.com/lindb/lindb/index"
	"github.com/lindb/lindb/models"
	"github.com/lindb/lindb/series/field"
	"github.com/lindb/lindb/series/metric"

	"lindbverif/vh"
)

// Field ids of ONE metric across the one-byte boundary: several hundred distinct field names created on a real metadata
// database under a configured fields limit (default 256, larger, small, none), earlier names asked again, flush + reopen
// and crash images in between.  Observed per creation: the id, or "too many fields".
func runFields(out *vh.Out, root string, id int, limit int, total int, r *vh.Rand, name string) {
	dir := filepath.Join(root, fmt.Sprintf("fields%d", id))
	defer os.RemoveAll(dir)
	db := fmt.Sprintf("verif-fields-%d", id)
	lim := models.NewDefaultLimits()
	lim.MaxFieldsPerMetric = limit
	models.SetDatabaseLimits(db, lim)
	cur := filepath.Join(dir, "g0")
	meta, err := index.NewMetricMetaDatabase(db, cur)
	if err != nil {
		out.Violation(0, "open", err.Error(), nil)
		return
	}
	defer func() { _ = meta.Close() }()
	mid, err := meta.GenMetricID([]byte("ns"), []byte("cpu"))
	if err != nil {
		out.Violation(0, "metric", err.Error(), nil)
		return
	}
	var ops, obs []string
	failed := ""
	gen := 0
	restarts := 0
	next := 0
	for next < total && failed == "" {
		x := r.Intn(1000)
		switch {
		case x < 6 && next > 0:
			// flush, then reopen (clean) or continue on a copy of the directory (crash)
			meta.PrepareFlush()
			if err := meta.Flush(); err != nil {
				failed = "flush: " + err.Error()
				break
			}
			gen++
			nextDir := cur
			if r.Bool() {
				nextDir = filepath.Join(dir, fmt.Sprintf("g%d", gen))
				if err := copyDir(cur, nextDir); err != nil {
					failed = "image: " + err.Error()
					break
				}
			}
			_ = meta.Close()
			cur = nextDir
			meta, err = index.NewMetricMetaDatabase(db, cur)
			if err != nil {
				failed = "reopen: " + err.Error()
				break
			}
			ops = append(ops, "Fields.Reopen")
			obs = append(obs, "None")
			restarts++
		default:
			nm := next
			if x < 150 && next > 0 {
				nm = r.Intn(next) // an earlier name again
			} else {
				next++
			}
			fid, err := meta.GenFieldID(metric.ID(mid), field.Meta{Name: field.Name(fmt.Sprintf("f%03d", nm)), Type: field.SumField})
			ops = append(ops, fmt.Sprintf("Fields.GenField %d", nm))
			switch {
			case err == nil:
				obs = append(obs, fmt.Sprintf("Some %d", int(fid)))
			case errors.Is(err, constants.ErrTooManyFields):
				obs = append(obs, "None")
			default:
				failed = "GenFieldID: " + err.Error()
			}
		}
	}
	idx := out.Case(map[string]interface{}{"kind": "field-ids-of-one-metric", "name": name, "fields_limit": limit, "distinct_names": total, "restarts": restarts, "failed": failed},
		total > 256 && restarts >= 1)
	out.Count("field-id-histories")
	if failed != "" {
		out.Violation(idx, "fields", failed, nil)
	}
	out.Check(idx, fmt.Sprintf("check_fields %d %s\n %s", limit, vh.List(ops), vh.List(obs)))
}

func fieldCases(out *vh.Out, root string, r *vh.Rand, n int, id *int) {
	runFields(out, root, *id, 256, 300, r, "default limit, 300 names")
	*id++
	for i := 0; i < n; i++ {
		limit := []int{256, 300, 1000, 0, 10, 254, 255}[r.Intn(7)]
		total := []int{300, 270, 40, 520}[r.Intn(4)]
		if limit == 10 {
			total = 40
		}
		runFields(out, root, *id, limit, total, r, "random")
		*id++
	}
}
