package main

import (
	"fmt"
	"os"
	"path/filepath"
	"time"

	"github.com/lindb/lindb/index"
	v1 "github.com/lindb/lindb/index/v1"
	"github.com/lindb/lindb/kv"
	"github.com/lindb/lindb/pkg/verifhook"

	"lindbverif/vh"
)

// runFlushConc: concurrent get-or-create callers of ONE bucket of a real index kv store (real kv family underneath),
// with PrepareFlush / Flush placed between their steps. An event < len(progs) lets that caller run up to its next
// scheduling point (before the bucket it read from the files is cached / before createValue), event len(progs) is
// PrepareFlush, event len(progs)+1 a complete Flush.
func runFlushConc(out *vh.Out, root string, id int, progs [][]int, sched []int, name string) {
	dir := filepath.Join(root, fmt.Sprintf("f%d", id))
	defer os.RemoveAll(dir)
	st, err := kv.GetStoreManager().CreateStore(dir, kv.DefaultStoreOption())
	if err != nil {
		out.Violation(0, "open", err.Error(), nil)
		return
	}
	defer func() { _ = kv.GetStoreManager().CloseStore(dir) }()
	fam, err := st.CreateFamily("names", kv.FamilyOption{Merger: string(v1.IndexKVMerger)})
	if err != nil {
		out.Violation(0, "open", err.Error(), nil)
		return
	}
	store := index.NewIndexKVStore(fam, 1000, 10*time.Minute)
	const bucket = uint32(3)
	next := uint32(0)
	createFn := func() (uint32, error) { next++; return next - 1, nil }

	n := len(progs)
	grant := make([]chan struct{}, n)
	event := make(chan string)
	results := make([][][2]int, n)
	pos := make([]int, n)
	for i := range grant {
		grant[i] = make(chan struct{})
	}
	cur := -1
	verifhook.Set(func(point string) {
		if point != "index.kvstore.beforeCreateValue" && point != "index.kvstore.beforeCacheBucket" {
			return
		}
		if cur < 0 {
			return // the controller's own lookups at the end
		}
		i := cur
		event <- "paused"
		<-grant[i]
	})
	defer verifhook.Set(nil)
	for i := 0; i < n; i++ {
		go func(i int) {
			for _, nm := range progs[i] {
				<-grant[i]
				v, _, err := store.GetOrCreateValue(bucket, []byte(fmt.Sprintf("k%d", nm)), createFn)
				if err != nil {
					results[i] = append(results[i], [2]int{nm, -1})
				} else {
					results[i] = append(results[i], [2]int{nm, int(v)})
				}
				event <- "done"
			}
		}(i)
	}
	var full []int
	flushErr := ""
	doEvent := func(i int) {
		switch {
		case i < n:
			if pos[i] >= len(progs[i]) {
				full = append(full, i)
				return
			}
			full = append(full, i)
			cur = i
			grant[i] <- struct{}{}
			if <-event == "done" {
				pos[i]++
			}
			cur = -1
		case i == n:
			full = append(full, i)
			store.PrepareFlush()
		default:
			full = append(full, n+1)
			if err := store.Flush(); err != nil {
				flushErr = err.Error()
			}
		}
	}
	for _, i := range sched {
		doEvent(i)
	}
	for {
		busy := false
		for i := 0; i < n; i++ {
			if pos[i] < len(progs[i]) {
				busy = true
				doEvent(i)
			}
		}
		if !busy {
			break
		}
	}
	if flushErr != "" {
		out.Violation(0, "api-error", "Flush failed: "+flushErr, nil)
	}
	// what is found afterwards, for every name of the programs
	names := map[int]bool{}
	var order []int
	for i := range progs {
		for _, nm := range progs[i] {
			if !names[nm] {
				names[nm] = true
				order = append(order, nm)
			}
		}
	}
	var final []string
	for _, nm := range order {
		v, ok, err := store.GetValue(bucket, []byte(fmt.Sprintf("k%d", nm)))
		switch {
		case err != nil:
			out.Violation(0, "api-error", "GetValue failed: "+err.Error(), nil)
			final = append(final, vh.Pair(fmt.Sprintf("%d", nm), "None"))
		case ok:
			final = append(final, vh.Pair(fmt.Sprintf("%d", nm), fmt.Sprintf("Some %d", v)))
		default:
			final = append(final, vh.Pair(fmt.Sprintf("%d", nm), "None"))
		}
	}
	var ps, os_ []string
	for i := 0; i < n; i++ {
		ps = append(ps, vh.NatList(progs[i]))
		var rs []string
		for _, p := range results[i] {
			if p[1] < 0 {
				out.Violation(0, "api-error", "GetOrCreateValue failed in a concurrent schedule", nil)
				p[1] = 0
			}
			rs = append(rs, vh.Pair(fmt.Sprintf("%d", p[0]), fmt.Sprintf("%d", p[1])))
		}
		os_ = append(os_, vh.List(rs))
	}
	flushes, interesting := 0, false
	for _, e := range full {
		if e == n+1 {
			flushes++
		}
	}
	seen := map[int]int{}
	for i := range progs {
		for _, nm := range progs[i] {
			if t, ok := seen[nm]; ok && t != i {
				interesting = true
			}
			seen[nm] = i
		}
	}
	idx := out.Case(map[string]interface{}{"kind": "concurrent-with-flush", "name": name, "progs": progs, "events": full}, interesting && flushes > 0)
	out.Count("flush-schedules")
	out.CountN("flush-schedule-events", len(full))
	out.CountN("flush-schedule-flushes", flushes)
	out.Check(idx, fmt.Sprintf("check_flush %s %s\n %s %s", vh.List(ps), vh.NatList(full), vh.List(os_), vh.List(final)))
}

// flushDirected: the schedules which place a complete flush inside a caller's window between lookup and create, and a
// flush between a caller's read of the files and its caching of what it read.
func flushDirected(out *vh.Out, root string, id *int) {
	run := func(progs [][]int, sched []int, name string) {
		runFlushConc(out, root, *id, progs, sched, name)
		*id++
	}
	// callers 0 and 1 miss k5; 1 creates it; it is flushed completely; 0 creates
	run([][]int{{5}, {5}}, []int{0, 1, 1, 2, 3, 0}, "complete flush between a caller's lookup and its create")
	// only PrepareFlush in the window
	run([][]int{{5}, {5}}, []int{0, 1, 1, 2, 0, 3}, "prepare-flush between a caller's lookup and its create")
	// k1 is in the files; caller 1 reads the bucket (k2 missing) and is parked before caching it; caller 0 creates k3,
	// a complete flush purges the cache; caller 1 caches the old bucket; caller 2 then looks for k3
	run([][]int{{1, 3}, {2}, {3}}, []int{0, 0, 3, 4, 1, 0, 0, 0, 3, 4, 1, 1, 2, 2, 2}, "old bucket cached after a flush purged the cache")
	// two flushes, names spread over memory and two files
	run([][]int{{1, 2, 3}, {3, 2, 1}}, []int{0, 0, 2, 3, 1, 0, 0, 1, 2, 3, 1, 1, 0, 1}, "names over memory and two files")
}
