// C09 harness: histories of get-or-create / lookup / prepare-flush / flush (with scheduling points between its steps) /
// crash (directory image) on a real metadata database + index database, and forced schedules of concurrent
// get-or-create callers through the scheduling point in the index key-value store.
package main

import (
	"bytes"
	"fmt"
	"os"
	"os/exec"
	"path/filepath"

	protoMetricsV1 "github.com/lindb/common/proto/gen/v1/linmetrics"
	"github.com/lindb/lindb/index"
	"github.com/lindb/lindb/models"
	"github.com/lindb/lindb/pkg/verifhook"
	"github.com/lindb/lindb/series/field"
	"github.com/lindb/lindb/series/metric"
	"github.com/lindb/lindb/series/tag"
	"github.com/lindb/lindb/sql/stmt"

	"lindbverif/vh"
)

var (
	nsPool    = []string{"ns1", "ns2", "os1"}
	mPool     = []string{"m1", "m2", "m3", "m4"}
	kPool     = []string{"k1", "k2", "k3"}
	vPool     = []string{"v1", "v2", "v3", "v4"}
	fPool     = []string{"f1", "f2", "f3"}
	tsPool    = [][][2]int{{{0, 0}}, {{0, 1}}, {{0, 0}, {1, 0}}, {{0, 1}, {1, 2}}, {{1, 3}}, {}} // tag sets: (key idx, value idx); the last one: a series without tags
	kindNames = map[string]string{"ns": "KNs", "metric": "KMetric", "tagkey": "KTagKey", "tagvalue": "KTagValue", "field": "KField", "series": "KSeries"}
)

// one model step with what was observed
type mop struct {
	Op  string `json:"op"` // coq term
	Obs string `json:"obs"`
}

type world struct {
	root   string
	gen    int
	dir    string
	meta   index.MetricMetaDatabase
	idx    index.MetricIndexDatabase
	ops    []mop
	out    *vh.Out
	failed bool
}

func (w *world) open() error {
	meta, err := index.NewMetricMetaDatabase("verifdb", filepath.Join(w.dir, "meta"))
	if err != nil {
		return err
	}
	idx, err := index.NewMetricIndexDatabase(filepath.Join(w.dir, "index"), meta)
	if err != nil {
		return err
	}
	w.meta, w.idx = meta, idx
	return nil
}

func (w *world) closeDBs() {
	if w.idx != nil {
		_ = w.idx.Close()
	}
	if w.meta != nil {
		_ = w.meta.Close()
	}
	w.idx, w.meta = nil, nil
}

func (w *world) emit(op, obs string) { w.ops = append(w.ops, mop{op, obs}) }

func some(id uint32) string { return fmt.Sprintf("Some (Some %d%%nat)", id) }

const (
	obsNone = "Some None"
	unobs   = "None"
)

func genOp(kind string, sc, nm int) string {
	return fmt.Sprintf("Gen %s %d%%nat %d%%nat", kindNames[kind], sc, nm)
}
func lookOp(kind string, sc, nm int) string {
	return fmt.Sprintf("Look %s %d%%nat %d%%nat", kindNames[kind], sc, nm)
}

func (w *world) fail(what string, err error) {
	w.failed = true
	w.out.Violation(0, "api-error", fmt.Sprintf("%s: %v", what, err), nil)
}

// arg makes the byte slice handed to a database from a pooled name; spoil overwrites every slice handed out so far.
// The write path hands the databases views into a row block that is reused for the next batch: a store that keeps
// the caller's bytes instead of a copy changes its names behind its back.
var handed [][]byte

func arg(s string) []byte {
	b := []byte(s)
	handed = append(handed, b)
	return b
}

func spoil() {
	for _, b := range handed {
		for i := range b {
			b[i] = '#'
		}
	}
	handed = handed[:0]
}

func (w *world) genMetric(ns, m int) (uint32, bool) {
	id, err := w.meta.GenMetricID(arg(nsPool[ns]), arg(mPool[m]))
	spoil()
	if err != nil {
		w.fail("GenMetricID", err)
		return 0, false
	}
	nsID, ok, err := index.VerifNamespaceID(w.meta, []byte(nsPool[ns]))
	if err != nil || !ok {
		w.fail("namespace id after GenMetricID", fmt.Errorf("found=%v err=%v", ok, err))
		return 0, false
	}
	w.emit(genOp("ns", int(nsPool[ns][0]), ns+1), some(nsID))
	w.emit(genOp("metric", int(nsID), m+1), some(uint32(id)))
	return uint32(id), true
}

func (w *world) genTagKey(mid uint32, k int, observed bool) (uint32, bool) {
	id, err := w.meta.GenTagKeyID(metric.ID(mid), arg(kPool[k]))
	spoil()
	if err != nil {
		w.fail("GenTagKeyID", err)
		return 0, false
	}
	if observed {
		w.emit(genOp("tagkey", int(mid), k+1), some(uint32(id)))
	}
	return uint32(id), true
}

func (w *world) genField(mid uint32, f int) {
	id, err := w.meta.GenFieldID(metric.ID(mid), field.Meta{Name: field.Name(fPool[f]), Type: field.SumField})
	if err != nil {
		w.fail("GenFieldID", err)
		return
	}
	w.emit(genOp("field", int(mid), f+1), some(uint32(id)))
}

func (w *world) genTagValue(kid uint32, v int) {
	id, err := w.meta.GenTagValueID(tag.KeyID(kid), arg(vPool[v]))
	spoil()
	if err != nil {
		w.fail("GenTagValueID", err)
		return
	}
	w.emit(genOp("tagvalue", int(kid), v+1), some(id))
}

func buildRow(ns, m int, ts [][2]int) (*metric.StorageRow, []byte) {
	pm := &protoMetricsV1.Metric{
		Name:      mPool[m],
		Namespace: nsPool[ns],
		SimpleFields: []*protoMetricsV1.SimpleField{
			{Name: "f1", Type: protoMetricsV1.SimpleFieldType_DELTA_SUM, Value: 1},
		},
	}
	for _, kv := range ts {
		pm.Tags = append(pm.Tags, &protoMetricsV1.KeyValue{Key: kPool[kv[0]], Value: vPool[kv[1]]})
	}
	var ml protoMetricsV1.MetricList
	ml.Metrics = append(ml.Metrics, pm)
	var buf bytes.Buffer
	converter := metric.NewProtoConverter(models.NewDefaultLimits())
	if _, err := converter.MarshalProtoMetricListV1To(ml, &buf); err != nil {
		panic(err)
	}
	var br metric.StorageBatchRows
	raw := buf.Bytes()
	br.UnmarshalRows(raw)
	return br.Rows()[0], raw
}

// genSeries: tag keys and values of the row are created first by explicit calls, so that the index build inside
// GenSeriesID only touches the schema (recorded as unobserved steps after the series step when the series is new)
func (w *world) genSeries(ns, m int, mid uint32, t int, kn *known) {
	ts := tsPool[t]
	for _, kv := range ts {
		kid, ok := w.genTagKey(mid, kv[0], true)
		if !ok {
			return
		}
		kn.kids[[2]int{int(mid), kv[0]}] = kid
		w.genTagValue(kid, kv[1])
	}
	row, raw := buildRow(ns, m, ts)
	_, known, err := index.VerifLookupSeries(w.idx, metric.ID(mid), row.TagsHash())
	if err != nil {
		w.fail("VerifLookupSeries", err)
		return
	}
	id, err := w.idx.GenSeriesID(metric.ID(mid), row)
	for i := range raw { // the row's block is reused for the next batch
		raw[i] = '#'
	}
	if err != nil {
		w.fail("GenSeriesID", err)
		return
	}
	w.emit(genOp("series", int(mid), t+1), some(id))
	if !known {
		for _, kv := range ts {
			w.emit(genOp("tagkey", int(mid), kv[0]+1), unobs)
		}
	}
}

func (w *world) lookMetric(ns, m int) (uint32, bool) {
	nsID, ok, err := index.VerifNamespaceID(w.meta, []byte(nsPool[ns]))
	if err != nil {
		w.fail("VerifNamespaceID", err)
		return 0, false
	}
	if !ok {
		w.emit(lookOp("ns", int(nsPool[ns][0]), ns+1), obsNone)
		if _, err := w.meta.GetMetricID(nsPool[ns], mPool[m]); err == nil {
			w.out.Violation(0, "metric-without-namespace", "GetMetricID succeeds although the namespace is unknown", nil)
		}
		return 0, false
	}
	w.emit(lookOp("ns", int(nsPool[ns][0]), ns+1), some(nsID))
	id, err := w.meta.GetMetricID(nsPool[ns], mPool[m])
	if err != nil {
		w.emit(lookOp("metric", int(nsID), m+1), obsNone)
		return 0, false
	}
	w.emit(lookOp("metric", int(nsID), m+1), some(uint32(id)))
	return uint32(id), true
}

// lookSchema: every pool key and field of the metric; returns the tag key ids found
func (w *world) lookSchema(mid uint32) map[int]uint32 {
	found := map[int]uint32{}
	schema, err := w.meta.GetSchema(metric.ID(mid))
	if err != nil {
		w.fail("GetSchema", err)
		return found
	}
	for k := range kPool {
		obs := obsNone
		if schema != nil {
			if tm, ok := schema.TagKeys.Find(kPool[k]); ok {
				obs = some(uint32(tm.ID))
				found[k] = uint32(tm.ID)
			}
		}
		w.emit(lookOp("tagkey", int(mid), k+1), obs)
	}
	for f := range fPool {
		obs := obsNone
		if schema != nil {
			if fm, ok := schema.Fields.Find(field.Name(fPool[f])); ok {
				obs = some(uint32(fm.ID))
			}
		}
		w.emit(lookOp("field", int(mid), f+1), obs)
	}
	return found
}

func (w *world) lookTagValues(kid uint32) {
	for v := range vPool {
		ids, err := w.meta.FindTagValueDsByExpr(tag.KeyID(kid), &stmt.EqualsExpr{Key: "k", Value: vPool[v]})
		obs := obsNone
		if err == nil && ids != nil && !ids.IsEmpty() {
			if ids.GetCardinality() != 1 {
				w.out.Violation(0, "tag-value-lookup", fmt.Sprintf("tag key %d value %s has %d ids", kid, vPool[v], ids.GetCardinality()), nil)
			}
			obs = some(ids.Minimum())
		}
		w.emit(lookOp("tagvalue", int(kid), v+1), obs)
	}
}

func (w *world) lookSeries(ns, m int, mid uint32) {
	for t := range tsPool {
		row, _ := buildRow(ns, m, tsPool[t])
		id, ok, err := index.VerifLookupSeries(w.idx, metric.ID(mid), row.TagsHash())
		if err != nil {
			w.fail("VerifLookupSeries", err)
			return
		}
		obs := obsNone
		if ok {
			obs = some(id)
		}
		w.emit(lookOp("series", int(mid), t+1), obs)
	}
}

// lookAll reads back every name of the pools
func (w *world) lookAll() {
	for ns := range nsPool {
		for m := range mPool {
			mid, ok := w.lookMetric(ns, m)
			if !ok {
				continue
			}
			keys := w.lookSchema(mid)
			for k := 0; k < len(kPool); k++ {
				if kid, ok := keys[k]; ok {
					w.lookTagValues(kid)
				}
			}
			w.lookSeries(ns, m, mid)
		}
	}
}

func copyDir(src, dst string) error {
	return exec.Command("cp", "-r", src, dst).Run()
}

// crash: the directory as it is now becomes the recovered state; everything in memory is dropped
func (w *world) crashImage() (string, error) {
	w.gen++
	dst := filepath.Join(w.root, fmt.Sprintf("img%d", w.gen))
	return dst, copyDir(w.dir, dst)
}

func (w *world) switchTo(img string) error {
	w.closeDBs()
	old := w.dir
	w.dir = img
	_ = os.RemoveAll(old)
	return w.open()
}

// probeIndexCrash: the databases recovered from the directory as it was after the k-th store commit of an index flush.
// Every series the recovered dictionary knows keeps its id, and a series created now does not get an id the recovered
// dictionary already uses for another series of the metric.
func (w *world) probeIndexCrash(img string, k int, kn *known) {
	meta, err := index.NewMetricMetaDatabase("verifdb", filepath.Join(img, "meta"))
	if err != nil {
		w.out.Violation(0, "reopen-blocked", fmt.Sprintf("crash after store commit %d of the index flush: %v", k, err), nil)
		return
	}
	defer meta.Close()
	idx, err := index.NewMetricIndexDatabase(filepath.Join(img, "index"), meta)
	if err != nil {
		w.out.Violation(0, "reopen-blocked", fmt.Sprintf("crash after store commit %d of the index flush: %v", k, err), nil)
		return
	}
	defer idx.Close()
	w.out.Count("index-flush-crash-probes")
	for key, mid := range kn.mids {
		ns, m := key[0], key[1]
		used := map[uint32]int{} // id -> tag set that holds it in the recovered dictionary
		var missing []int
		for t := range tsPool {
			row, _ := buildRow(ns, m, tsPool[t])
			id, ok, err := index.VerifLookupSeries(idx, metric.ID(mid), row.TagsHash())
			if err != nil {
				continue
			}
			if ok {
				used[id] = t
			} else {
				missing = append(missing, t)
			}
		}
		for _, t := range missing {
			row, _ := buildRow(ns, m, tsPool[t])
			id, err := idx.GenSeriesID(metric.ID(mid), row)
			if err != nil {
				continue
			}
			if other, clash := used[id]; clash {
				w.out.Violation(0, "series-id-reused-after-a-crash-inside-the-index-flush",
					fmt.Sprintf("crash after store commit %d of the index flush: metric %d, the new series (tag set %d) got id %d which the recovered dictionary holds for tag set %d", k, mid, t, id, other), nil)
				return
			}
			used[id] = t
		}
	}
}

// a step a concurrent caller runs at a scheduling point of Flush
type hookStep struct {
	K string `json:"k"` // metric, field, tagvalue, tagkey, prepare, look, crash
	A int    `json:"a,omitempty"`
	B int    `json:"b,omitempty"`
	C int    `json:"c,omitempty"`
}

type step struct {
	K     string        `json:"k"` // metric tagkey field tagvalue series look prepare iprepare iflush flush crash reopen
	A     int           `json:"a,omitempty"`
	B     int           `json:"b,omitempty"`
	C     int           `json:"c,omitempty"`
	NP    bool          `json:"no_prepare,omitempty"` // flush: PrepareFlush was called by an earlier step (memdb: prepare in the handler, Flush in the background)
	Hooks [4][]hookStep `json:"hooks,omitempty"`      // for flush: steps at afterSync, afterNamespace, afterMetric, afterSchema
}

var hookPoints = map[string]int{
	"index.metadb.flush.afterSync": 0, "index.metadb.flush.afterNamespace": 1,
	"index.metadb.flush.afterMetric": 2, "index.metadb.flush.afterSchema": 3,
}
var flushOps = []string{"FSync", "FStore KNs", "FStore KMetric", "FSchema", "FStore KTagValue"}

// metric ids / tag key ids the history can refer to (as the implementation reported them in this run)
type known struct {
	mids map[[2]int]uint32
	kids map[[2]int]uint32 // (metric id, key idx) -> key id
}

func (w *world) runHookStep(h hookStep, kn *known) {
	switch h.K {
	case "metric":
		if id, ok := w.genMetric(h.A, h.B); ok {
			kn.mids[[2]int{h.A, h.B}] = id
		}
	case "field":
		if mid, ok := kn.mids[[2]int{h.A, h.B}]; ok {
			w.genField(mid, h.C)
		}
	case "tagkey":
		if mid, ok := kn.mids[[2]int{h.A, h.B}]; ok {
			if kid, ok := w.genTagKey(mid, h.C, true); ok {
				kn.kids[[2]int{int(mid), h.C}] = kid
			}
		}
	case "tagvalue":
		for key, kid := range kn.kids {
			if key[1] == h.A {
				w.genTagValue(kid, h.B)
				break
			}
		}
	case "prepare":
		w.meta.PrepareFlush()
		w.emit("Prepare", unobs)
	case "look":
		w.lookMetric(h.A, h.B)
	}
}

func (w *world) flush(s step, kn *known) {
	if !s.NP {
		w.meta.PrepareFlush()
		w.emit("Prepare", unobs)
	}
	w.emit(flushOps[0], unobs)
	var img string
	crashed := false
	verifhook.Set(func(point string) {
		i, ok := hookPoints[point]
		if !ok || crashed {
			return
		}
		for _, h := range s.Hooks[i] {
			if h.K == "crash" {
				var err error
				img, err = w.crashImage()
				if err != nil {
					w.fail("crash image", err)
				}
				crashed = true
				w.emit("Crash", unobs)
				return
			}
			w.runHookStep(h, kn)
		}
		w.emit(flushOps[i+1], unobs)
	})
	err := w.meta.Flush()
	verifhook.Set(nil)
	if err != nil {
		w.fail("Flush", err)
	}
	if crashed {
		if err := w.switchTo(img); err != nil {
			w.fail("reopen crash image", err)
		}
		kn.mids, kn.kids = map[[2]int]uint32{}, map[[2]int]uint32{}
		w.lookAllInto(kn)
	}
}

// lookAllInto: read everything back and refresh the ids the history may use
func (w *world) lookAllInto(kn *known) {
	for ns := range nsPool {
		for m := range mPool {
			mid, ok := w.lookMetric(ns, m)
			if !ok {
				continue
			}
			kn.mids[[2]int{ns, m}] = mid
			keys := w.lookSchema(mid)
			for k := 0; k < len(kPool); k++ {
				if kid, ok := keys[k]; ok {
					kn.kids[[2]int{int(mid), k}] = kid
					w.lookTagValues(kid)
				}
			}
			w.lookSeries(ns, m, mid)
		}
	}
}

func (w *world) run(s step, kn *known) {
	switch s.K {
	case "metric":
		if id, ok := w.genMetric(s.A, s.B); ok {
			kn.mids[[2]int{s.A, s.B}] = id
		}
	case "tagkey":
		if mid, ok := kn.mids[[2]int{s.A, s.B}]; ok {
			if kid, ok := w.genTagKey(mid, s.C, true); ok {
				kn.kids[[2]int{int(mid), s.C}] = kid
			}
		}
	case "field":
		if mid, ok := kn.mids[[2]int{s.A, s.B}]; ok {
			w.genField(mid, s.C)
		}
	case "tagvalue":
		// s.A: key idx, s.B: value idx; first known key id with that key idx (deterministic order)
		for ns := range nsPool {
			for m := range mPool {
				if mid, ok := kn.mids[[2]int{ns, m}]; ok {
					if kid, ok := kn.kids[[2]int{int(mid), s.A}]; ok {
						w.genTagValue(kid, s.B)
						return
					}
				}
			}
		}
	case "series":
		if mid, ok := kn.mids[[2]int{s.A, s.B}]; ok {
			w.genSeries(s.A, s.B, mid, s.C, kn)
		}
	case "look":
		w.lookAllInto(kn)
	case "prepare":
		w.meta.PrepareFlush()
		w.emit("Prepare", unobs)
	case "iprepare":
		w.idx.PrepareFlush()
		w.emit("IPrepare", unobs)
	case "iflush":
		w.idx.PrepareFlush()
		w.emit("IPrepare", unobs)
		// the index flush is one step of the model; the directory as it is after each of its store commits is kept and
		// probed afterwards (crash inside the flush: no model state, the property itself on the recovered databases)
		var imgs []string
		verifhook.Set(func(p string) {
			if p == "kv.flush.afterCommit" && !w.failed {
				if img, err := w.crashImage(); err == nil {
					imgs = append(imgs, img)
				}
			}
		})
		err := w.idx.Flush()
		verifhook.Set(nil)
		if err != nil {
			w.fail("index Flush", err)
		}
		w.emit("IFlush", unobs)
		for i, img := range imgs {
			if i < len(imgs)-1 { // the last image is the completed flush
				w.probeIndexCrash(img, i+1, kn)
			}
			_ = os.RemoveAll(img)
		}
	case "flush":
		w.flush(s, kn)
	case "crash", "reopen":
		if s.K == "crash" {
			img, err := w.crashImage()
			if err != nil {
				w.fail("crash image", err)
				return
			}
			if err := w.switchTo(img); err != nil {
				w.fail("reopen crash image", err)
				return
			}
		} else {
			w.closeDBs()
			if err := w.open(); err != nil {
				w.fail("reopen", err)
				return
			}
		}
		w.emit("Crash", unobs)
		kn.mids, kn.kids = map[[2]int]uint32{}, map[[2]int]uint32{}
		w.lookAllInto(kn)
	}
}

func randomHistory(r *vh.Rand) []step {
	n := r.Range(8, 40)
	var hs []step
	prepared := false
	hookGen := func(stage int) []hookStep {
		var out []hookStep
		for r.Chance(45) && len(out) < 3 {
			x := r.Intn(100)
			switch {
			case x < 30:
				out = append(out, hookStep{K: "metric", A: r.Intn(len(nsPool)), B: r.Intn(len(mPool))})
			case x < 50:
				out = append(out, hookStep{K: "field", A: r.Intn(len(nsPool)), B: r.Intn(len(mPool)), C: r.Intn(len(fPool))})
			case x < 68:
				out = append(out, hookStep{K: "tagvalue", A: r.Intn(len(kPool)), B: r.Intn(len(vPool))})
			case x < 80:
				out = append(out, hookStep{K: "prepare"})
			case x < 88:
				out = append(out, hookStep{K: "look", A: r.Intn(len(nsPool)), B: r.Intn(len(mPool))})
			default:
				// a new tag key may enter a schema only after the schema step of the running flush
				if stage == 3 {
					out = append(out, hookStep{K: "tagkey", A: r.Intn(len(nsPool)), B: r.Intn(len(mPool)), C: r.Intn(len(kPool))})
				}
			}
		}
		return out
	}
	for i := 0; i < n; i++ {
		x := r.Intn(100)
		if r.Chance(6) && !prepared {
			// a flush window that holds new names of one kind only, then a restart and one more name of that kind
			kind := []string{"metric", "tagkey", "tagvalue"}[r.Intn(3)]
			one := func() step {
				switch kind {
				case "metric":
					return step{K: "metric", A: r.Intn(len(nsPool)), B: r.Intn(len(mPool))}
				case "tagkey":
					return step{K: "tagkey", A: r.Intn(len(nsPool)), B: r.Intn(len(mPool)), C: r.Intn(len(kPool))}
				}
				return step{K: "tagvalue", A: r.Intn(len(kPool)), B: r.Intn(len(vPool))}
			}
			hs = append(hs, step{K: "flush"})
			for j := r.Range(1, 3); j > 0; j-- {
				hs = append(hs, one())
			}
			hs = append(hs, step{K: "flush"}, step{K: []string{"crash", "reopen"}[r.Intn(2)]}, one(), one())
			continue
		}
		switch {
		case x < 18:
			hs = append(hs, step{K: "metric", A: r.Intn(len(nsPool)), B: r.Intn(len(mPool))})
		case x < 30:
			hs = append(hs, step{K: "tagkey", A: r.Intn(len(nsPool)), B: r.Intn(len(mPool)), C: r.Intn(len(kPool))})
		case x < 40:
			hs = append(hs, step{K: "field", A: r.Intn(len(nsPool)), B: r.Intn(len(mPool)), C: r.Intn(len(fPool))})
		case x < 48:
			hs = append(hs, step{K: "tagvalue", A: r.Intn(len(kPool)), B: r.Intn(len(vPool))})
		case x < 62:
			ts := r.Intn(len(tsPool))
			if r.Chance(20) {
				ts = len(tsPool) - 1 // the series without tags
			}
			hs = append(hs, step{K: "series", A: r.Intn(len(nsPool)), B: r.Intn(len(mPool)), C: ts})
		case x < 66:
			hs = append(hs, step{K: "prepare"})
			prepared = true
		case x < 69:
			hs = append(hs, step{K: "iprepare"})
		case x < 77:
			hs = append(hs, step{K: "iflush"})
		case x < 90:
			s := step{K: "flush", NP: prepared && r.Chance(70)}
			prepared = false
			for j := 0; j < 4; j++ {
				s.Hooks[j] = hookGen(j)
			}
			if r.Chance(25) {
				j := r.Intn(4)
				s.Hooks[j] = append(s.Hooks[j], hookStep{K: "crash"})
			}
			hs = append(hs, s)
		case x < 94:
			hs = append(hs, step{K: "crash"})
			prepared = false
		case x < 96:
			hs = append(hs, step{K: "reopen"})
			prepared = false
		default:
			hs = append(hs, step{K: "look"})
		}
	}
	hs = append(hs, step{K: "look"})
	return hs
}

type corpusCase struct {
	name string
	sig  string
	disc bool
	hs   []step
}

func corpus() []corpusCase {
	fl := step{K: "flush"}
	return []corpusCase{
		{name: "empty prepare+flush first, then names, flush, crash", disc: true, hs: []step{
			fl, {K: "iflush"}, {K: "metric", A: 0, B: 0}, {K: "series", A: 0, B: 0, C: 0}, fl, {K: "iflush"}, {K: "crash"},
			{K: "metric", A: 0, B: 1}, {K: "series", A: 0, B: 0, C: 1}, {K: "look"}}},
		{name: "index flush with nothing first, then a series, index flush, crash, another series", disc: true, hs: []step{
			{K: "metric", A: 0, B: 0}, fl, {K: "iflush"}, {K: "series", A: 0, B: 0, C: 0}, {K: "iflush"}, {K: "crash"},
			{K: "series", A: 0, B: 0, C: 1}, {K: "look"}}},
		{name: "names created between PrepareFlush and Flush, crash, new names", disc: true, hs: []step{
			{K: "metric", A: 0, B: 0}, {K: "metric", A: 0, B: 1}, {K: "tagkey", A: 0, B: 0, C: 0}, {K: "prepare"},
			{K: "tagkey", A: 0, B: 0, C: 1}, {K: "metric", A: 1, B: 2}, {K: "tagvalue", A: 0, B: 0}, {K: "field", A: 0, B: 0, C: 0}, {K: "flush", NP: true}, {K: "crash"},
			{K: "tagkey", A: 0, B: 1, C: 2}, {K: "metric", A: 1, B: 3}, {K: "tagvalue", A: 0, B: 1}, {K: "look"}}},
		{name: "a flush window with new tag values only, crash, a new tag value", disc: true, hs: []step{
			{K: "metric", A: 0, B: 0}, {K: "tagkey", A: 0, B: 0, C: 0}, {K: "tagvalue", A: 0, B: 0}, fl,
			{K: "tagvalue", A: 0, B: 1}, fl, {K: "crash"}, {K: "tagvalue", A: 0, B: 2}, {K: "tagvalue", A: 0, B: 1}, {K: "look"}}},
		{name: "a flush window with new tag keys only, reopen, a new tag key", disc: true, hs: []step{
			{K: "metric", A: 0, B: 0}, {K: "tagkey", A: 0, B: 0, C: 0}, {K: "tagvalue", A: 0, B: 0}, fl,
			{K: "tagkey", A: 0, B: 0, C: 1}, fl, {K: "reopen"}, {K: "tagkey", A: 0, B: 0, C: 2}, {K: "look"}}},
		{name: "a flush window with new metrics of a known namespace only, crash, a new metric", disc: true, hs: []step{
			{K: "metric", A: 0, B: 0}, {K: "tagkey", A: 0, B: 0, C: 0}, {K: "tagvalue", A: 0, B: 0}, fl,
			{K: "metric", A: 0, B: 1}, fl, {K: "crash"}, {K: "metric", A: 0, B: 2}, {K: "look"}}},
		{name: "a series without tags between two tagged series of one metric, flush, crash, more of both", disc: true, hs: []step{
			{K: "metric", A: 0, B: 0}, {K: "series", A: 0, B: 0, C: 0}, {K: "series", A: 0, B: 0, C: 5}, {K: "series", A: 0, B: 0, C: 1}, {K: "look"},
			fl, {K: "iflush"}, {K: "crash"}, {K: "series", A: 0, B: 0, C: 2}, {K: "metric", A: 0, B: 1}, {K: "series", A: 0, B: 1, C: 5}, {K: "series", A: 0, B: 1, C: 0},
			{K: "series", A: 0, B: 0, C: 5}, {K: "look"}}},
		{name: "crash after the counter sync only", disc: true, hs: []step{
			{K: "metric", A: 0, B: 0}, {K: "tagkey", A: 0, B: 0, C: 0},
			{K: "flush", Hooks: [4][]hookStep{{{K: "crash"}}, nil, nil, nil}},
			{K: "metric", A: 0, B: 1}, {K: "metric", A: 0, B: 0}, {K: "look"}}},
		{name: "tag key added between counter sync and schema step, crash before the next sync", disc: false,
			sig: "tagkey-created-between-counter-sync-and-schema-flush", hs: []step{
				{K: "metric", A: 0, B: 0}, {K: "metric", A: 0, B: 1}, {K: "tagkey", A: 0, B: 0, C: 0},
				{K: "flush", Hooks: [4][]hookStep{{{K: "tagkey", A: 0, B: 0, C: 1}}, nil, nil, {{K: "crash"}}}},
				{K: "tagkey", A: 0, B: 1, C: 2}, {K: "look"}}},
	}
}

func runHistory(out *vh.Out, root string, id int, name, sig string, disc bool, hs []step) {
	w := &world{root: filepath.Join(root, fmt.Sprintf("h%d", id)), out: out}
	_ = os.MkdirAll(w.root, 0o755)
	defer os.RemoveAll(w.root)
	w.dir = filepath.Join(w.root, "img0")
	if err := w.open(); err != nil {
		out.Violation(0, "open", err.Error(), nil)
		return
	}
	kn := &known{mids: map[[2]int]uint32{}, kids: map[[2]int]uint32{}}
	kinds := map[string]bool{}
	for _, s := range hs {
		if w.failed {
			break
		}
		w.run(s, kn)
		kinds[s.K] = true
		out.Count("step:" + s.K)
		if s.K == "flush" {
			for j := range s.Hooks {
				for _, h := range s.Hooks[j] {
					out.Count("during-flush:" + h.K)
					if h.K == "crash" {
						kinds["crash"] = true
					}
				}
			}
		}
	}
	w.closeDBs()
	desc := map[string]interface{}{"kind": "history", "name": name, "steps": hs, "model_ops": w.ops, "disciplined": disc}
	if sig != "" {
		desc["sig"] = sig
	}
	idx := out.Case(desc, kinds["flush"] && (kinds["crash"] || kinds["reopen"]) && (kinds["metric"] || kinds["series"]))
	var ops, obs []string
	for _, m := range w.ops {
		ops = append(ops, m.Op)
		obs = append(obs, m.Obs)
	}
	out.CountN("model-ops", len(ops))
	out.Check(idx, fmt.Sprintf("check_hist %s\n %s\n %s", vh.Bool(disc), vh.List(ops), vh.List(obs)))
}

// ---- concurrent callers of GenMetricID on one database ----

func runConc(out *vh.Out, root string, id int, progs [][]int, sched []int, name string) {
	dir := filepath.Join(root, fmt.Sprintf("c%d", id))
	defer os.RemoveAll(dir)
	meta, err := index.NewMetricMetaDatabase("verifdb", filepath.Join(dir, "meta"))
	if err != nil {
		out.Violation(0, "open", err.Error(), nil)
		return
	}
	defer meta.Close()
	ns := []byte("ns1")
	// the namespace exists already, so that only the metric dictionary misses
	if _, err := meta.GenMetricID(ns, []byte("warmup")); err != nil {
		out.Violation(0, "warmup", err.Error(), nil)
		return
	}
	base := uint32(1) // "warmup" took metric id 0
	n := len(progs)
	grant := make([]chan struct{}, n)
	event := make(chan string)
	results := make([][][2]int, n)
	pos := make([]int, n) // requests finished
	for i := range grant {
		grant[i] = make(chan struct{})
	}
	cur := -1
	verifhook.Set(func(point string) {
		if point != "index.kvstore.beforeCreateValue" {
			return
		}
		i := cur
		event <- "paused"
		<-grant[i]
	})
	for i := 0; i < n; i++ {
		go func(i int) {
			for _, nm := range progs[i] {
				<-grant[i]
				mid, err := meta.GenMetricID(ns, []byte(fmt.Sprintf("c%d", nm)))
				if err != nil {
					results[i] = append(results[i], [2]int{nm, -1})
				} else {
					results[i] = append(results[i], [2]int{nm, int(uint32(mid) - base)})
				}
				event <- "done"
			}
		}(i)
	}
	paused := make([]bool, n)
	var full []int
	stepThread := func(i int) {
		full = append(full, i)
		if pos[i] >= len(progs[i]) {
			return
		}
		cur = i
		grant[i] <- struct{}{}
		if <-event == "paused" {
			paused[i] = true
		} else {
			paused[i] = false
			pos[i]++
		}
	}
	for _, i := range sched {
		stepThread(i)
	}
	for {
		busy := false
		for i := 0; i < n; i++ {
			if pos[i] < len(progs[i]) {
				busy = true
				stepThread(i)
			}
		}
		if !busy {
			break
		}
	}
	verifhook.Set(nil)
	var ps, os_ []string
	for i := 0; i < n; i++ {
		ps = append(ps, vh.NatList(progs[i]))
		var rs []string
		for _, p := range results[i] {
			if p[1] < 0 {
				out.Violation(0, "api-error", "GenMetricID failed in a concurrent schedule", nil)
				p[1] = 0
			}
			rs = append(rs, vh.Pair(fmt.Sprintf("%d%%nat", p[0]), fmt.Sprintf("%d%%nat", p[1])))
		}
		os_ = append(os_, vh.List(rs))
	}
	same := false
	seen := map[int]int{}
	for i := range progs {
		for _, nm := range progs[i] {
			if t, ok := seen[nm]; ok && t != i {
				same = true
			}
			seen[nm] = i
		}
	}
	idx := out.Case(map[string]interface{}{"kind": "concurrent", "name": name, "progs": progs, "schedule": full}, same)
	out.Count("concurrent-schedules")
	out.CountN("concurrent-microsteps", len(full))
	out.Check(idx, fmt.Sprintf("check_conc %s %s\n %s", vh.List(ps), vh.NatList(full), vh.List(os_)))
}

// ---- concurrent callers creating the fields and tag keys of one new metric ----

type sreq struct {
	Kind string `json:"kind"` // "f" field, "t" tag key
	Name int    `json:"name"`
}

func (r sreq) coq() string {
	if r.Kind == "f" {
		return fmt.Sprintf("(Schema.KF, %d)", r.Name)
	}
	return fmt.Sprintf("(Schema.KT, %d)", r.Name)
}

func runSchemaConc(out *vh.Out, root string, id int, progs [][]sreq, sched []int, name string) {
	dir := filepath.Join(root, fmt.Sprintf("s%d", id))
	defer os.RemoveAll(dir)
	meta, err := index.NewMetricMetaDatabase("verifdb", filepath.Join(dir, "meta"))
	if err != nil {
		out.Violation(0, "open", err.Error(), nil)
		return
	}
	defer meta.Close()
	ns := []byte("ns1")
	// another metric takes the first tag key id, so the ids of the metric under test are counted from base
	warm, err := meta.GenMetricID(ns, []byte("warmup"))
	if err != nil {
		out.Violation(0, "warmup", err.Error(), nil)
		return
	}
	t0, err := meta.GenTagKeyID(warm, []byte("warm"))
	if err != nil {
		out.Violation(0, "warmup", err.Error(), nil)
		return
	}
	base := uint32(t0) + 1
	mid, err := meta.GenMetricID(ns, []byte("fresh"))
	if err != nil {
		out.Violation(0, "metric", err.Error(), nil)
		return
	}
	n := len(progs)
	grant := make([]chan struct{}, n)
	event := make(chan string)
	results := make([][]string, n)
	pos := make([]int, n)
	for i := range grant {
		grant[i] = make(chan struct{})
	}
	cur := -1
	verifhook.Set(func(point string) {
		if point != "index.schemastore.gen.beforeLock" {
			return
		}
		i := cur
		event <- "paused"
		<-grant[i]
	})
	apiErr := false
	for i := 0; i < n; i++ {
		go func(i int) {
			for _, rq := range progs[i] {
				<-grant[i]
				var v uint32
				var err error
				if rq.Kind == "f" {
					var fid field.ID
					fid, err = meta.GenFieldID(mid, field.Meta{Name: field.Name(fmt.Sprintf("f%d", rq.Name)), Type: field.SumField})
					v = uint32(fid)
				} else {
					var kid tag.KeyID
					kid, err = meta.GenTagKeyID(mid, []byte(fmt.Sprintf("k%d", rq.Name)))
					v = uint32(kid) - base
				}
				if err != nil {
					apiErr = true
				}
				results[i] = append(results[i], fmt.Sprintf("(%s, %d)", rq.coq(), v))
				event <- "done"
			}
		}(i)
	}
	var full []int
	stepThread := func(i int) {
		full = append(full, i)
		if pos[i] >= len(progs[i]) {
			return
		}
		cur = i
		grant[i] <- struct{}{}
		if <-event == "done" {
			pos[i]++
		}
	}
	for _, i := range sched {
		if i < n {
			stepThread(i)
		}
	}
	for {
		busy := false
		for i := 0; i < n; i++ {
			if pos[i] < len(progs[i]) {
				busy = true
				stepThread(i)
			}
		}
		if !busy {
			break
		}
	}
	verifhook.Set(nil)
	if apiErr {
		out.Violation(0, "api-error", "GenFieldID / GenTagKeyID failed in a concurrent schedule", nil)
	}
	// what is found afterwards
	schema, err := meta.GetSchema(mid)
	if err != nil {
		out.Violation(0, "schema", err.Error(), nil)
		return
	}
	seenReq := map[string]bool{}
	var final []string
	overlap := false
	owner := map[string]int{}
	for i := range progs {
		for _, rq := range progs[i] {
			key := rq.coq()
			if o, ok := owner[key]; ok && o != i {
				overlap = true
			}
			owner[key] = i
			if seenReq[key] {
				continue
			}
			seenReq[key] = true
			found := "None"
			if schema != nil {
				if rq.Kind == "f" {
					if fm, ok := schema.Fields.Find(field.Name(fmt.Sprintf("f%d", rq.Name))); ok {
						found = fmt.Sprintf("Some %d", fm.ID)
					}
				} else if tm, ok := schema.TagKeys.Find(fmt.Sprintf("k%d", rq.Name)); ok {
					found = fmt.Sprintf("Some %d", uint32(tm.ID)-base)
				}
			}
			final = append(final, fmt.Sprintf("(%s, %s)", key, found))
		}
	}
	var ps, os_ []string
	kinds := map[string]bool{}
	for i := 0; i < n; i++ {
		var rs []string
		for _, rq := range progs[i] {
			rs = append(rs, rq.coq())
			kinds[rq.Kind] = true
		}
		ps = append(ps, vh.List(rs))
		os_ = append(os_, vh.List(results[i]))
	}
	idx := out.Case(map[string]interface{}{"kind": "schema-concurrent", "name": name, "progs": progs, "schedule": full, "results": results, "found": final},
		len(kinds) == 2 || overlap)
	out.Count("schema-concurrent-schedules")
	out.CountN("schema-concurrent-microsteps", len(full))
	out.Check(idx, fmt.Sprintf("check_schema %s %s\n %s\n %s", vh.List(ps), vh.NatList(full), vh.List(os_), vh.List(final)))
}

func main() {
	cfg := vh.ParseFlags()
	r := vh.NewRand(cfg.Seed)
	out := vh.NewOut(cfg.Out, "From Coq Require Import List Arith Bool.\nImport ListNotations.\nFrom LinDBV.C09 Require Import Model Check.\nOpen Scope nat_scope.\n")
	out.ShardSize = 20
	root, err := os.MkdirTemp("", "verif-c09-")
	if err != nil {
		panic(err)
	}
	defer os.RemoveAll(root)
	id := 0
	for _, c := range corpus() {
		runHistory(out, root, id, c.name, c.sig, c.disc, c.hs)
		id++
	}
	// the forced race: both callers miss, then both create
	runConc(out, root, id, [][]int{{7}, {7}}, []int{0, 1, 0, 1}, "two callers create the same name")
	id++
	// the index worker (tag key) and the metadata worker (fields) of the first row of a metric
	runSchemaConc(out, root, id, [][]sreq{{{"f", 1}, {"f", 3}}, {{"t", 7}}}, []int{0, 1, 1, 0, 0, 0}, "fields and tag key of a new metric created at once")
	id++
	runSchemaConc(out, root, id, [][]sreq{{{"f", 1}}, {{"f", 1}}, {{"f", 2}}}, []int{0, 1, 2, 2, 1, 0}, "three callers, two of them the same field")
	id++
	nConc := cfg.N / 3
	for i := 0; i < cfg.N-nConc; i++ {
		runHistory(out, root, id, "random", "", true, randomHistory(r))
		id++
	}
	for i := 0; i < nConc; i++ {
		nt := r.Range(2, 3)
		progs := make([][]int, nt)
		for t := range progs {
			for j := r.Range(1, 4); j > 0; j-- {
				progs[t] = append(progs[t], r.Intn(4))
			}
		}
		var sched []int
		for j := r.Range(0, 12); j > 0; j-- {
			sched = append(sched, r.Intn(nt))
		}
		runConc(out, root, id, progs, sched, "random")
		id++
	}
	for i := 0; i < nConc; i++ {
		nt := r.Range(2, 3)
		progs := make([][]sreq, nt)
		for t := range progs {
			for j := r.Range(1, 3); j > 0; j-- {
				if r.Chance(60) {
					progs[t] = append(progs[t], sreq{"f", r.Intn(3)})
				} else {
					progs[t] = append(progs[t], sreq{"t", r.Intn(2)})
				}
			}
		}
		var sched []int
		for j := r.Range(0, 10); j > 0; j-- {
			sched = append(sched, r.Intn(nt))
		}
		runSchemaConc(out, root, id, progs, sched, "random")
		id++
	}
	flushDirected(out, root, &id)
	for i := 0; i < nConc; i++ {
		nt := r.Range(2, 3)
		progs := make([][]int, nt)
		for t := range progs {
			for j := r.Range(1, 4); j > 0; j-- {
				progs[t] = append(progs[t], r.Intn(4))
			}
		}
		var sched []int
		for j := r.Range(2, 16); j > 0; j-- {
			if r.Chance(35) {
				// a flush event; a complete flush (PrepareFlush, Flush) more often than a lone half
				switch r.Intn(4) {
				case 0:
					sched = append(sched, nt)
				case 1:
					sched = append(sched, nt+1)
				default:
					sched = append(sched, nt, nt+1)
				}
			} else {
				sched = append(sched, r.Intn(nt))
			}
		}
		runFlushConc(out, root, id, progs, sched, "random")
		id++
	}
	schemaFlushDirected(out, root, &id)
	for i := 0; i < nConc; i++ {
		nt := r.Range(2, 3)
		progs := make([][]sreq, nt)
		for t := range progs {
			for j := r.Range(1, 3); j > 0; j-- {
				switch x := r.Intn(100); {
				case x < 55:
					progs[t] = append(progs[t], sreq{"f", r.Intn(4)})
				case x < 85:
					progs[t] = append(progs[t], sreq{"t", r.Intn(3)})
				default:
					progs[t] = append(progs[t], sreq{"g", 0})
				}
			}
		}
		var sched []int
		for j := r.Range(3, 18); j > 0; j-- {
			if r.Chance(40) {
				switch r.Intn(6) {
				case 0:
					sched = append(sched, nt)
				case 1:
					sched = append(sched, nt+1)
				case 2:
					sched = append(sched, nt+2)
				case 3:
					sched = append(sched, nt, nt+1) // Flush stays between its halves while callers run
				default:
					sched = append(sched, nt, nt+1, nt+2)
				}
			} else {
				sched = append(sched, r.Intn(nt))
			}
		}
		runSchemaFlush(out, root, id, progs, sched, "random")
		id++
	}
	fieldCases(out, root, r, cfg.N/50+2, &id)
	out.Notes = append(out.Notes, "crash = copy of the database directories taken at an operation boundary or at a scheduling point inside MetricMetaDatabase.Flush; the image is then opened as the recovered database")
	out.Finish()
}
