package main

import (
	"fmt"
	"os"
	"path/filepath"

	"github.com/lindb/lindb/index"
	"github.com/lindb/lindb/pkg/verifhook"
	"github.com/lindb/lindb/series/field"
	"github.com/lindb/lindb/series/tag"

	"lindbverif/vh"
)

func (r sreq) coqF() string {
	switch r.Kind {
	case "f":
		return fmt.Sprintf("SchemaFlush.Gen (Schema.KF, %d)", r.Name)
	case "t":
		return fmt.Sprintf("SchemaFlush.Gen (Schema.KT, %d)", r.Name)
	}
	return "SchemaFlush.Get"
}

// runSchemaFlush: callers creating fields / tag keys of ONE metric (or only reading its schema: kind "g") on a real
// metadata database, with PrepareFlush and the two halves of Flush between their steps. Events: i < n caller i runs up
// to its next scheduling point (before a schema read from the files is cached; before the store's lock is taken);
// n = PrepareFlush; n+1 = Flush up to the scheduling point before the schemas are marked persisted; n+2 = rest of Flush.
func runSchemaFlush(out *vh.Out, root string, id int, progs [][]sreq, sched []int, name string) {
	dir := filepath.Join(root, fmt.Sprintf("sf%d", id))
	defer os.RemoveAll(dir)
	meta, err := index.NewMetricMetaDatabase("verifdb", filepath.Join(dir, "meta"))
	if err != nil {
		out.Violation(0, "open", err.Error(), nil)
		return
	}
	defer meta.Close()
	ns := []byte("ns1")
	warm, err := meta.GenMetricID(ns, []byte("warmup"))
	if err != nil {
		out.Violation(0, "warmup", err.Error(), nil)
		return
	}
	t0, err := meta.GenTagKeyID(warm, []byte("warm"))
	if err != nil {
		out.Violation(0, "warmup", err.Error(), nil)
		return
	}
	base := uint32(t0) + 1
	mid, err := meta.GenMetricID(ns, []byte("fresh"))
	if err != nil {
		out.Violation(0, "metric", err.Error(), nil)
		return
	}
	// the warm-up metric's schema goes to the files first, so that the stores hold the metric under test only
	meta.PrepareFlush()
	if err := meta.Flush(); err != nil {
		out.Violation(0, "warmup", err.Error(), nil)
		return
	}
	n := len(progs)
	grant := make([]chan struct{}, n+1) // n = the flusher
	event := make(chan string)
	results := make([][]string, n)
	pos := make([]int, n)
	for i := range grant {
		grant[i] = make(chan struct{})
	}
	cur := -1
	verifhook.Set(func(point string) {
		switch point {
		case "index.schemastore.gen.beforeLock", "index.schemastore.get.beforeCache":
			if cur < 0 || cur >= n {
				return
			}
		case "index.schemastore.flush.beforeMark":
			if cur != n {
				return
			}
		default:
			return
		}
		i := cur
		event <- "paused"
		<-grant[i]
	})
	defer verifhook.Set(nil)
	apiErr := ""
	for i := 0; i < n; i++ {
		go func(i int) {
			for _, rq := range progs[i] {
				<-grant[i]
				var v uint32
				var err error
				switch rq.Kind {
				case "f":
					var fid field.ID
					fid, err = meta.GenFieldID(mid, field.Meta{Name: field.Name(fmt.Sprintf("f%d", rq.Name)), Type: field.SumField})
					v = uint32(fid)
				case "t":
					var kid tag.KeyID
					kid, err = meta.GenTagKeyID(mid, []byte(fmt.Sprintf("k%d", rq.Name)))
					v = uint32(kid) - base
				default:
					_, err = meta.GetSchema(mid)
				}
				if err != nil {
					apiErr = err.Error()
				}
				if rq.Kind != "g" {
					results[i] = append(results[i], fmt.Sprintf("(%s, %d)", rq.coq(), v))
				}
				event <- "done"
			}
		}(i)
	}
	var full []int
	flushing := false
	doEvent := func(i int) {
		switch {
		case i < n:
			full = append(full, i)
			if pos[i] >= len(progs[i]) {
				return
			}
			cur = i
			grant[i] <- struct{}{}
			if <-event == "done" {
				pos[i]++
			}
			cur = -1
		case i == n:
			full = append(full, n)
			meta.PrepareFlush()
		case i == n+1:
			full = append(full, n+1)
			if flushing {
				return
			}
			cur = n
			go func() {
				if err := meta.Flush(); err != nil {
					apiErr = "flush: " + err.Error()
				}
				event <- "done"
			}()
			if <-event == "paused" {
				flushing = true
			}
			cur = -1
		default:
			full = append(full, n+2)
			if !flushing {
				return
			}
			cur = n
			grant[n] <- struct{}{}
			<-event
			flushing = false
			cur = -1
		}
	}
	for _, i := range sched {
		doEvent(i)
	}
	if flushing {
		doEvent(n + 2)
	}
	for {
		busy := false
		for i := 0; i < n; i++ {
			if pos[i] < len(progs[i]) {
				busy = true
				doEvent(i)
			}
		}
		if !busy {
			break
		}
	}
	if apiErr != "" {
		out.Violation(0, "api-error", "a call failed in a schedule with flushes: "+apiErr, nil)
	}
	// what is found afterwards
	schema, err := meta.GetSchema(mid)
	if err != nil {
		out.Violation(0, "schema", err.Error(), nil)
		return
	}
	seenReq := map[string]bool{}
	var final []string
	for i := range progs {
		for _, rq := range progs[i] {
			key := rq.coq()
			if rq.Kind == "g" || seenReq[key] {
				continue
			}
			seenReq[key] = true
			found := "None"
			if schema != nil {
				if rq.Kind == "f" {
					if fm, ok := schema.Fields.Find(field.Name(fmt.Sprintf("f%d", rq.Name))); ok {
						found = fmt.Sprintf("Some %d", fm.ID)
					}
				} else if tm, ok := schema.TagKeys.Find(fmt.Sprintf("k%d", rq.Name)); ok {
					found = fmt.Sprintf("Some %d", uint32(tm.ID)-base)
				}
			}
			final = append(final, fmt.Sprintf("(%s, %s)", key, found))
		}
	}
	var ps, os_ []string
	flushes := 0
	for _, e := range full {
		if e == n+2 {
			flushes++
		}
	}
	for i := 0; i < n; i++ {
		var rs []string
		for _, rq := range progs[i] {
			rs = append(rs, rq.coqF())
		}
		ps = append(ps, vh.List(rs))
		os_ = append(os_, vh.List(results[i]))
	}
	idx := out.Case(map[string]interface{}{"kind": "schema-with-flush", "name": name, "progs": progs, "events": full, "results": results, "found": final},
		flushes > 0 && n >= 2)
	out.Count("schema-flush-schedules")
	out.CountN("schema-flush-events", len(full))
	out.Check(idx, fmt.Sprintf("check_schema_flush %s %s\n %s\n %s", vh.List(ps), vh.NatList(full), vh.List(os_), vh.List(final)))
}

func schemaFlushDirected(out *vh.Out, root string, id *int) {
	run := func(progs [][]sreq, sched []int, name string) {
		runSchemaFlush(out, root, *id, progs, sched, name)
		*id++
	}
	f := func(k int) sreq { return sreq{"f", k} }
	g := sreq{"g", 0}
	// both callers read "no schema"; caller 1 creates f2; PrepareFlush moves the schema to immutable; caller 0 creates f1
	run([][]sreq{{f(1)}, {f(2)}}, []int{0, 1, 1, 2, 0}, "prepare-flush between a caller's read and its locked part")
	// the same with a complete flush
	run([][]sreq{{f(1)}, {f(2)}}, []int{0, 1, 1, 2, 3, 4, 0}, "complete flush between a caller's read and its locked part")
	// f2 is appended to the schema while Flush is between writing it and marking it persisted; two flushes later f3
	run([][]sreq{{f(1)}, {f(2)}, {f(3)}}, []int{0, 0, 3, 4, 1, 1, 5, 3, 4, 5, 2, 2, 2}, "field appended while the schema is being flushed")
	// a reader parks before caching the schema it read from the files; a flush purges the cache; the reader caches its
	// old copy; a caller then creates f4 on it
	run([][]sreq{{f(1), f(3)}, {g}, {f(4)}}, []int{0, 0, 3, 4, 5, 1, 0, 0, 0, 3, 4, 5, 1, 2, 2, 2}, "old schema cached after a flush purged the cache")
}
