// C10 harness: series written through the real metadata + index databases with prepare-flush / flush / compaction
// placed between the writes, conditions written as SQL text and parsed by the real parser, evaluated by the real
// operators (tag values lookup, series filtering, grouping context build + BuildGroup).
package main

import (
	"bytes"
	"encoding/binary"
	"fmt"
	"os"
	"path/filepath"
	"regexp"
	"sort"
	"strings"
	"time"

	protoMetricsV1 "github.com/lindb/common/proto/gen/v1/linmetrics"
	"github.com/lindb/roaring"

	"github.com/lindb/lindb/aggregation"
	"github.com/lindb/lindb/flow"
	"github.com/lindb/lindb/index"
	"github.com/lindb/lindb/kv"
	"github.com/lindb/lindb/models"
	"github.com/lindb/lindb/pkg/timeutil"
	"github.com/lindb/lindb/query/operator"
	"github.com/lindb/lindb/series/field"
	"github.com/lindb/lindb/series/metric"
	"github.com/lindb/lindb/sql"
	"github.com/lindb/lindb/sql/stmt"
	"github.com/lindb/lindb/tsdb"

	"lindbverif/vh"
)

var (
	keyPool = []string{"host", "zone", "app"}
	valPool = []string{"a", "ab", "abc", "b", "ba", "é", "éa", "日本", "x", "y", "x,y", "~b", "abcabc", "c-1"}
)

type fakeDB struct {
	tsdb.Database
	meta index.MetricMetaDatabase
}

func (f *fakeDB) MetaDB() index.MetricMetaDatabase { return f.meta }

type fakeShard struct {
	tsdb.Shard
	idx index.MetricIndexDatabase
}

func (f *fakeShard) IndexDB() index.MetricIndexDatabase { return f.idx }

// ---- conditions ----
type cnode struct {
	Op   string   `json:"op"` // eq neq in notin like notlike re nre and or
	Key  int      `json:"key,omitempty"`
	Vals []string `json:"vals,omitempty"`
	L, R *cnode   `json:"l,omitempty"`
	Par  bool     `json:"paren,omitempty"`
}

func q(s string) string { return "'" + s + "'" }

func (c *cnode) sql() string {
	k := keyPool[c.Key]
	var s string
	switch c.Op {
	case "eq":
		s = k + " = " + q(c.Vals[0])
	case "neq":
		s = k + " != " + q(c.Vals[0])
	case "in", "notin":
		var vs []string
		for _, v := range c.Vals {
			vs = append(vs, q(v))
		}
		op := " in ("
		if c.Op == "notin" {
			op = " not in ("
		}
		s = k + op + strings.Join(vs, ",") + ")"
	case "like":
		s = k + " like " + q(c.Vals[0])
	case "notlike":
		s = k + " not like " + q(c.Vals[0])
	case "re":
		s = k + " =~ " + q(c.Vals[0])
	case "nre":
		s = k + " !~ " + q(c.Vals[0])
	case "and":
		s = c.L.sql() + " and " + c.R.sql()
	case "or":
		s = c.L.sql() + " or " + c.R.sql()
	}
	if c.Par {
		s = "(" + s + ")"
	}
	return s
}

func coqBytes(s string) string {
	var xs []int
	for _, b := range []byte(s) {
		xs = append(xs, int(b))
	}
	return vh.NatList(xs)
}

func coqVals(vs []string) string {
	var xs []string
	for _, v := range vs {
		xs = append(xs, coqBytes(v))
	}
	return vh.List(xs)
}

// coq renders the condition with the precedence the SQL text has: and binds tighter than or, left-associative;
// the harness builds its trees so that every or-child of an and is parenthesised
func (c *cnode) coq() string {
	pred := func(kind string) string {
		switch kind {
		case "eq":
			return "PEq " + coqBytes(c.Vals[0])
		case "in":
			return "PIn " + coqVals(c.Vals)
		case "like":
			return "PLike " + coqBytes(c.Vals[0])
		}
		// regex: the matching pool values, decided by the same regexp engine call the index makes
		rp := regexp.MustCompile(c.Vals[0])
		var ms []string
		for _, v := range valPool {
			if rp.Match([]byte(v)) {
				ms = append(ms, v)
			}
		}
		return "PSet " + coqVals(ms)
	}
	switch c.Op {
	case "eq", "in", "like":
		return fmt.Sprintf("(Atom %d (%s))", c.Key, pred(c.Op))
	case "re":
		return fmt.Sprintf("(Atom %d (%s))", c.Key, pred("re"))
	case "neq":
		return fmt.Sprintf("(NotAtom %d (%s))", c.Key, pred("eq"))
	case "notin":
		return fmt.Sprintf("(NotAtom %d (%s))", c.Key, pred("in"))
	case "notlike":
		return fmt.Sprintf("(NotAtom %d (%s))", c.Key, pred("like"))
	case "nre":
		return fmt.Sprintf("(NotAtom %d (%s))", c.Key, pred("re"))
	case "and":
		return fmt.Sprintf("(And %s %s)", c.L.coq(), c.R.coq())
	}
	return fmt.Sprintf("(Or %s %s)", c.L.coq(), c.R.coq())
}

func (c *cnode) atoms() int {
	if c.Op == "and" || c.Op == "or" {
		return c.L.atoms() + c.R.atoms()
	}
	return 1
}
func (c *cnode) hasNeg() bool {
	switch c.Op {
	case "and", "or":
		return c.L.hasNeg() || c.R.hasNeg()
	case "eq":
		return false
	}
	return true // negated or non-equality
}

var likePats = []string{"a*", "*b", "*b*", "ab", "*a", "é*", "*本", "*,*", "abc*", "*c*", "x*", "*bca*", "*-*"}
var rePats = []string{"^a", "b$", "^ab?c?$", "a.*c", "^[xy]$", "é", "^.$", "b", "^(a|b)", ",", "^~"}

func randAtom(r *vh.Rand, keys []int) *cnode {
	k := keys[r.Intn(len(keys))]
	v := func() string { return valPool[r.Intn(len(valPool))] }
	switch x := r.Intn(100); {
	case x < 22:
		return &cnode{Op: "eq", Key: k, Vals: []string{v()}}
	case x < 36:
		return &cnode{Op: "neq", Key: k, Vals: []string{v()}}
	case x < 50:
		n := r.Range(1, 3)
		var vs []string
		for i := 0; i < n; i++ {
			vs = append(vs, v())
		}
		return &cnode{Op: "in", Key: k, Vals: vs}
	case x < 60:
		n := r.Range(1, 3)
		var vs []string
		for i := 0; i < n; i++ {
			vs = append(vs, v())
		}
		return &cnode{Op: "notin", Key: k, Vals: vs}
	case x < 72:
		return &cnode{Op: "like", Key: k, Vals: []string{likePats[r.Intn(len(likePats))]}}
	case x < 80:
		return &cnode{Op: "notlike", Key: k, Vals: []string{likePats[r.Intn(len(likePats))]}}
	case x < 92:
		return &cnode{Op: "re", Key: k, Vals: []string{rePats[r.Intn(len(rePats))]}}
	}
	return &cnode{Op: "nre", Key: k, Vals: []string{rePats[r.Intn(len(rePats))]}}
}

func randCond(r *vh.Rand, keys []int, depth int) *cnode {
	if depth == 0 || r.Chance(30) {
		a := randAtom(r, keys)
		a.Par = r.Chance(10)
		return a
	}
	op := "and"
	if r.Bool() {
		op = "or"
	}
	c := &cnode{Op: op, L: randCond(r, keys, depth-1), R: randCond(r, keys, depth-1)}
	// keep the SQL text and the tree the same: parenthesise every compound child, and sometimes the node itself
	if c.L.Op == "and" || c.L.Op == "or" {
		c.L.Par = true
	}
	if c.R.Op == "and" || c.R.Op == "or" {
		c.R.Par = true
	}
	return c
}

// ---- the databases ----
type seriesRec struct {
	Sid  uint32
	Tags map[int]string
}

type world struct {
	dir   string
	meta  index.MetricMetaDatabase
	idx   index.MetricIndexDatabase
	mid   metric.ID
	recs  []seriesRec
	seen  map[string]bool
	hops  []string
	fills int
}

func (w *world) open() error {
	meta, err := index.NewMetricMetaDatabase("verifdb", filepath.Join(w.dir, "meta"))
	if err != nil {
		return err
	}
	idx, err := index.NewMetricIndexDatabase(filepath.Join(w.dir, "index"), meta)
	if err != nil {
		return err
	}
	w.meta, w.idx = meta, idx
	return nil
}

// lastBlock: the bytes the row returned by the last buildRow points into; spoilBlock overwrites them (the write path
// reuses the row block for the next batch once the rows are done)
var lastBlock []byte

func spoilBlock() {
	for i := range lastBlock {
		lastBlock[i] = '#'
	}
	lastBlock = nil
}

func buildRow(name string, tags map[string]string) *metric.StorageRow {
	pm := &protoMetricsV1.Metric{
		Name:      name,
		Namespace: "ns",
		SimpleFields: []*protoMetricsV1.SimpleField{
			{Name: "f1", Type: protoMetricsV1.SimpleFieldType_DELTA_SUM, Value: 1},
		},
	}
	var ks []string
	for k := range tags {
		ks = append(ks, k)
	}
	sort.Strings(ks)
	for _, k := range ks {
		pm.Tags = append(pm.Tags, &protoMetricsV1.KeyValue{Key: k, Value: tags[k]})
	}
	var ml protoMetricsV1.MetricList
	ml.Metrics = append(ml.Metrics, pm)
	var buf bytes.Buffer
	converter := metric.NewProtoConverter(models.NewDefaultLimits())
	if _, err := converter.MarshalProtoMetricListV1To(ml, &buf); err != nil {
		panic(err)
	}
	var br metric.StorageBatchRows
	lastBlock = buf.Bytes()
	br.UnmarshalRows(lastBlock)
	return br.Rows()[0]
}

func (w *world) write(tags map[int]string) error {
	var sig []string
	named := map[string]string{}
	for k, v := range tags {
		sig = append(sig, fmt.Sprintf("%d=%s", k, v))
		named[keyPool[k]] = v
	}
	sort.Strings(sig)
	key := strings.Join(sig, "\x00")
	if w.seen[key] || len(tags) == 0 {
		return nil
	}
	w.seen[key] = true
	sid, err := w.idx.GenSeriesID(w.mid, buildRow("m1", named))
	spoilBlock()
	if err != nil {
		return err
	}
	w.recs = append(w.recs, seriesRec{Sid: sid, Tags: tags})
	var ts []string
	var ks []int
	for k := range tags {
		ks = append(ks, k)
	}
	sort.Ints(ks)
	for _, k := range ks {
		ts = append(ts, vh.Pair(fmt.Sprintf("%d", k), coqBytes(tags[k])))
	}
	w.hops = append(w.hops, fmt.Sprintf("HAdd (%d%%N, %s)", sid, vh.List(ts)))
	return nil
}

// fillers: series of the same metric that carry only a tag key no condition mentions; they push the series ids of
// the later series across the 65536 container boundary and are not part of the model's input
func (w *world) fill(n int) error {
	for i := 0; i < n; i++ {
		if _, err := w.idx.GenSeriesID(w.mid, buildRow("m1", map[string]string{"fill": fmt.Sprintf("f%d", w.fills)})); err != nil {
			return err
		}
		w.fills++
	}
	return nil
}

func (w *world) prepare() {
	w.meta.PrepareFlush()
	w.idx.PrepareFlush()
	w.hops = append(w.hops, "HSplit WDict", "HSplit WInv", "HSplit WFwd")
}

func (w *world) flush() error {
	w.prepare()
	if err := w.meta.Flush(); err != nil {
		return err
	}
	return w.idx.Flush()
}

func (w *world) compact() {
	for _, sf := range [][2]string{{filepath.Join(w.dir, "meta", "kv"), "tv"}, {filepath.Join(w.dir, "index"), "inverted"}, {filepath.Join(w.dir, "index"), "forward"}} {
		store, ok := kv.GetStoreManager().GetStoreByName(sf[0])
		if !ok {
			continue
		}
		fam := store.GetFamily(sf[1])
		if fam == nil {
			continue
		}
		fam.Compact()
		// the compaction runs in the background: wait until level 0 is down to at most one file
		for i := 0; i < 400; i++ {
			snap := fam.GetSnapshot()
			n := snap.GetCurrent().NumberOfFilesInLevel(0)
			snap.Close()
			if n <= 1 {
				break
			}
			time.Sleep(5 * time.Millisecond)
		}
	}
	w.hops = append(w.hops, "HMerge WDict 1", "HMerge WInv 1", "HMerge WFwd 1")
}

type queryObs struct {
	At     int                 `json:"at"`
	SQL    string              `json:"sql"`
	Keys   []int               `json:"group_by"`
	Sel    []uint32            `json:"selected"`
	Groups map[uint32][]string `json:"groups"`
	Err    string              `json:"err,omitempty"`
}

func (w *world) query(c *cnode, gkeys []int) (obs queryObs) {
	obs.At = len(w.hops)
	obs.Keys = gkeys
	var gb []string
	for _, k := range gkeys {
		gb = append(gb, keyPool[k])
	}
	text := "select f1 from m1 where " + c.sql()
	if len(gb) > 0 {
		text += " group by " + strings.Join(gb, ",")
	}
	obs.SQL = text
	defer func() {
		if rec := recover(); rec != nil {
			obs.Err = fmt.Sprintf("panic: %v", rec)
		}
	}()
	st, err := sql.Parse(text)
	if err != nil {
		obs.Err = "parse: " + err.Error()
		return
	}
	query := st.(*stmt.Query)
	query.Interval = timeutil.Interval(10 * 1000)
	query.StorageInterval = query.Interval
	query.IntervalRatio = 1
	query.TimeRange = timeutil.TimeRange{Start: 0, End: 3600 * 1000}
	schema, err := w.meta.GetSchema(w.mid)
	if err != nil || schema == nil {
		obs.Err = fmt.Sprintf("schema: %v", err)
		return
	}
	sctx := &flow.StorageExecuteContext{
		Query:             query,
		MetricID:          w.mid,
		Schema:            schema,
		Fields:            field.Metas{{ID: 0, Type: field.SumField, Name: "f1"}},
		DownSamplingSpecs: aggregation.AggregatorSpecs{aggregation.NewAggregatorSpec("f1", field.SumField)},
	}
	for _, k := range gkeys {
		tm, ok := schema.TagKeys.Find(keyPool[k])
		if !ok {
			obs.Err = "group key not in schema"
			return
		}
		sctx.GroupByTags = append(sctx.GroupByTags, tm)
		sctx.GroupByTagKeyIDs = append(sctx.GroupByTagKeyIDs, tm.ID)
	}
	sctx.GroupingTagValueIDs = make([]*roaring.Bitmap, len(gkeys))
	if err := operator.NewTagValuesLookup(sctx, &fakeDB{meta: w.meta}).Execute(); err != nil {
		obs.Err = "lookup: " + err.Error()
		return
	}
	shardCtx := flow.NewShardExecuteContext(sctx)
	shard := &fakeShard{idx: w.idx}
	if err := operator.NewSeriesFiltering(shardCtx, shard).Execute(); err != nil {
		obs.Err = "filtering: " + err.Error()
		return
	}
	obs.Sel = shardCtx.SeriesIDsAfterFiltering.ToArray()
	obs.Groups = map[uint32][]string{}
	if len(gkeys) == 0 || shardCtx.SeriesIDsAfterFiltering.IsEmpty() {
		return
	}
	// every selected series has data in the range
	shardCtx.TimeSegmentContext.SeriesIDs = shardCtx.SeriesIDsAfterFiltering.Clone()
	if err := operator.NewGroupingContextBuild(shardCtx, shard).Execute(); err != nil {
		if strings.Contains(err.Error(), "not found") {
			return // no selected series has all grouping keys
		}
		obs.Err = "grouping: " + err.Error()
		return
	}
	final := shardCtx.SeriesIDsAfterFiltering
	// tag value ids of every group, then ONE CollectTagValues call per grouping key for all of them, as the query path
	// does (query/operator tag values collect): the names of several values are read in one pass over the dictionary
	type grp struct {
		sid uint32
		ids []uint32
	}
	var groups []grp
	perKey := make([]*roaring.Bitmap, len(gkeys))
	for i := range perKey {
		perKey[i] = roaring.New()
	}
	for _, hk := range final.GetHighKeys() {
		container := final.GetContainer(hk)
		dl := &flow.DataLoadContext{ShardExecuteCtx: shardCtx, SeriesIDHighKey: hk, LowSeriesIDsContainer: container, IsGrouping: true}
		dl.Grouping()
		shardCtx.GroupingContext.BuildGroup(dl)
		it := container.PeekableIterator()
		for it.HasNext() {
			low := it.Next()
			ref := dl.GroupingSeriesAggRefs[low-dl.MinSeriesID]
			if int(ref) >= len(dl.GroupingSeriesAgg) {
				obs.Err = "grouping: series without group"
				return
			}
			keyBytes := []byte(dl.GroupingSeriesAgg[ref].Key)
			g := grp{sid: uint32(hk)<<16 | uint32(low)}
			for i := range gkeys {
				vidv := binary.LittleEndian.Uint32(keyBytes[i*4:])
				g.ids = append(g.ids, vidv)
				perKey[i].Add(vidv)
			}
			groups = append(groups, g)
		}
	}
	names := make([]map[uint32]string, len(gkeys))
	for i := range gkeys {
		names[i] = map[uint32]string{}
		if err := w.meta.CollectTagValues(sctx.GroupByTagKeyIDs[i], perKey[i], names[i]); err != nil {
			obs.Err = "collect: " + err.Error()
			return
		}
	}
	for _, g := range groups {
		var vals []string
		for i, id := range g.ids {
			vals = append(vals, names[i][id])
		}
		obs.Groups[g.sid] = vals
	}
	return
}

func (o queryObs) coq(c *cnode) string {
	var sel []string
	for _, s := range o.Sel {
		sel = append(sel, fmt.Sprintf("%d%%N", s))
	}
	var ks []string
	for _, k := range o.Keys {
		ks = append(ks, fmt.Sprintf("%d", k))
	}
	var sids []int
	for s := range o.Groups {
		sids = append(sids, int(s))
	}
	sort.Ints(sids)
	var gs []string
	for _, s := range sids {
		gs = append(gs, vh.Pair(fmt.Sprintf("%d%%N", s), coqVals(o.Groups[uint32(s)])))
	}
	return fmt.Sprintf("{| q_at := %d; q_cond := %s; q_keys := %s; q_sel := %s; q_groups := %s |}", o.At, c.coq(), vh.List(ks), vh.List(sel), vh.List(gs))
}

type caseSpec struct {
	name    string
	sig     string
	fillers int
	series  []map[int]string
	conds   []*cnode
	gkeys   [][]int
	script  []string // w (write next series) p f c (prepare flush compact) q (next query) F (fillers)
}

func runCase(out *vh.Out, root string, id int, cs caseSpec) {
	w := &world{dir: filepath.Join(root, fmt.Sprintf("c%d", id)), seen: map[string]bool{}}
	defer os.RemoveAll(w.dir)
	if err := w.open(); err != nil {
		out.Violation(0, "open", err.Error(), nil)
		return
	}
	defer func() {
		_ = w.idx.Close()
		_ = w.meta.Close()
	}()
	mid, err := w.meta.GenMetricID([]byte("ns"), []byte("m1"))
	if err != nil {
		out.Violation(0, "GenMetricID", err.Error(), nil)
		return
	}
	w.mid = mid
	// a second metric sharing keys and values: its series must never show up
	mid2, _ := w.meta.GenMetricID([]byte("ns"), []byte("m2"))
	_, _ = w.idx.GenSeriesID(mid2, buildRow("m2", map[string]string{"host": "a", "zone": "b"}))
	_, _ = w.idx.GenSeriesID(mid2, buildRow("m2", map[string]string{"host": "zz"}))
	si, qi := 0, 0
	var qcoq []string
	var qobs []queryObs
	nontrivial := false
	for _, s := range cs.script {
		switch s {
		case "w":
			if si < len(cs.series) {
				if err := w.write(cs.series[si]); err != nil {
					out.Violation(0, "GenSeriesID", err.Error(), nil)
				}
				si++
			}
		case "F":
			if err := w.fill(cs.fillers); err != nil {
				out.Violation(0, "fill", err.Error(), nil)
			}
			out.CountN("filler-series", cs.fillers)
		case "p":
			w.prepare()
			out.Count("op:prepare-flush")
		case "f":
			if err := w.flush(); err != nil {
				out.Violation(0, "flush", err.Error(), nil)
			}
			out.Count("op:flush")
		case "c":
			w.compact()
			out.Count("op:compact")
		case "q":
			if qi >= len(cs.conds) {
				continue
			}
			c, gk := cs.conds[qi], cs.gkeys[qi]
			qi++
			// keys of the condition and of group by must be known to the schema (else the query is rejected)
			have := map[int]bool{}
			for _, rec := range w.recs {
				for k := range rec.Tags {
					have[k] = true
				}
			}
			ok := true
			var walk func(n *cnode)
			walk = func(n *cnode) {
				if n.Op == "and" || n.Op == "or" {
					walk(n.L)
					walk(n.R)
				} else if !have[n.Key] {
					ok = false
				}
			}
			walk(c)
			for _, k := range gk {
				if !have[k] {
					ok = false
				}
			}
			if !ok {
				out.Count("query:skipped-unknown-key")
				continue
			}
			obs := w.query(c, gk)
			out.Count("query")
			if obs.Err != "" {
				out.Count("query:error")
				d := map[string]interface{}{"kind": "query-error", "name": cs.name, "sql": obs.SQL, "err": obs.Err, "history": w.hops}
				if strings.HasPrefix(obs.Err, "panic") && strings.Contains(obs.SQL, "like '*'") {
					d["sig"] = "like-star-panics"
				}
				idx := out.Case(d, true)
				out.Check(idx, "(0, 900)")
				continue
			}
			qobs = append(qobs, obs)
			qcoq = append(qcoq, obs.coq(c))
			all := len(w.recs)
			missing := false
			for _, rec := range w.recs {
				if len(rec.Tags) < len(keyPool) {
					missing = true
				}
			}
			if c.atoms() >= 2 && c.hasNeg() && missing && len(obs.Sel) > 0 && len(obs.Sel) < all {
				nontrivial = true
			}
			out.Count(fmt.Sprintf("query:atoms=%d", c.atoms()))
			if len(gk) > 0 {
				out.Count("query:group-by")
			}
		}
	}
	maxSid := uint32(0)
	for _, rec := range w.recs {
		if rec.Sid > maxSid {
			maxSid = rec.Sid
		}
	}
	if maxSid >= 65536 {
		out.Count("case:series-ids-cross-container-boundary")
	}
	d := map[string]interface{}{"kind": "history", "name": cs.name, "script": strings.Join(cs.script, ""), "series": w.recs, "queries": qobs, "hops": w.hops}
	if cs.sig != "" {
		d["sig"] = cs.sig
	}
	idx := out.Case(d, nontrivial)
	out.CountN("series", len(w.recs))
	out.Check(idx, fmt.Sprintf("check_case %s\n %s", vh.List(w.hops), vh.List(qcoq)))
}

func randomCase(r *vh.Rand, big bool) caseSpec {
	cs := caseSpec{name: "random"}
	ns := r.Range(3, 14)
	// a few values per case, so that series share tag values across layers
	perm := r.Perm(len(valPool))[:r.Range(3, 7)]
	for i := 0; i < ns; i++ {
		t := map[int]string{}
		for k := range keyPool {
			if r.Chance(65) {
				t[k] = valPool[perm[r.Intn(len(perm))]]
			}
		}
		cs.series = append(cs.series, t)
	}
	nq := r.Range(2, 6)
	keys := []int{0, 1, 2}
	for i := 0; i < nq; i++ {
		cs.conds = append(cs.conds, randCond(r, keys, r.Range(1, 3)))
		var gk []int
		if r.Chance(60) {
			for _, k := range r.Perm(3)[:r.Range(1, 2)] {
				gk = append(gk, k)
			}
		}
		cs.gkeys = append(cs.gkeys, gk)
	}
	// script: writes interleaved with layer operations and queries
	var sc []string
	if big {
		cs.fillers = 65536 - r.Range(0, 4)
		half := ns / 2
		for i := 0; i < half; i++ {
			sc = append(sc, "w")
		}
		sc = append(sc, "F")
		if r.Chance(60) {
			sc = append(sc, "f")
		}
		for i := half; i < ns; i++ {
			sc = append(sc, "w")
			if r.Chance(20) {
				sc = append(sc, []string{"p", "f", "c"}[r.Intn(3)])
			}
		}
		if r.Chance(60) {
			// a second file of every family and a real merge over containers on both sides of the 65536 boundary
			sc = append(sc, "f", "c")
		}
		for i := 0; i < nq; i++ {
			sc = append(sc, "q")
			if r.Chance(30) {
				sc = append(sc, []string{"p", "f", "c"}[r.Intn(3)])
			}
		}
	} else {
		w, qn := 0, 0
		for w < ns || qn < nq {
			x := r.Intn(100)
			switch {
			case x < 50 && w < ns:
				sc = append(sc, "w")
				w++
			case x < 60:
				sc = append(sc, "p")
			case x < 72:
				sc = append(sc, "f")
			case x < 78:
				sc = append(sc, "c")
			case w >= 2 && qn < nq:
				sc = append(sc, "q")
				qn++
			case w >= ns:
				sc = append(sc, "q")
				qn++
			}
		}
	}
	cs.script = sc
	return cs
}

func corpus() []caseSpec {
	three := []map[int]string{{0: "x"}, {0: "y"}, {0: "x,y"}, {0: "~b", 1: "a"}, {0: "b", 1: "a"}, {1: "b"}}
	eq := func(k int, v string) *cnode { return &cnode{Op: "eq", Key: k, Vals: []string{v}} }
	return []caseSpec{
		{name: "two filters with the same rewritten text", series: three, script: strings.Split("wwwwwwqfq", ""),
			conds: []*cnode{
				{Op: "or", L: &cnode{Op: "in", Key: 0, Vals: []string{"x,y"}}, R: &cnode{Op: "in", Key: 0, Vals: []string{"x", "y"}}},
				{Op: "or", L: &cnode{Op: "re", Key: 0, Vals: []string{"b"}}, R: eq(0, "~b")}},
			gkeys: [][]int{nil, nil}},
		{name: "like with a lone star", series: three, script: strings.Split("wwwwwwfq", ""), sig: "",
			conds: []*cnode{{Op: "like", Key: 0, Vals: []string{"*"}}}, gkeys: [][]int{nil}},
		{name: "one tag value with series in the immutable and in the mutable part", series: []map[int]string{{0: "a", 1: "x"}, {0: "a", 1: "y"}, {0: "b", 1: "x"}, {0: "a"}, {1: "x"}},
			script: strings.Split("wwpwwqqfwqq", ""),
			conds: []*cnode{eq(0, "a"), {Op: "and", L: &cnode{Op: "neq", Key: 0, Vals: []string{"a"}}, R: &cnode{Op: "like", Key: 1, Vals: []string{"x*"}}},
				eq(1, "x"), {Op: "or", L: &cnode{Op: "notin", Key: 1, Vals: []string{"x"}}, R: &cnode{Op: "re", Key: 0, Vals: []string{"^a$"}}}},
			gkeys: [][]int{{0}, {1}, {0, 1}, nil}},
		{name: "series of one tag key in three containers of series ids (two runs of 65536 fillers), flushed, grouped", fillers: 65536,
			series: []map[int]string{{0: "a", 1: "x"}, {0: "b", 1: "y"}, {0: "c", 1: "x"}, {0: "d", 1: "y"}, {0: "e", 1: "x"}, {0: "f"}, {0: "g", 1: "z"}},
			script: strings.Split("wwFwwFwwfqwfqcq", ""), // two files of every family, then a real merge
			conds:  []*cnode{{Op: "like", Key: 0, Vals: []string{"*"}}, {Op: "neq", Key: 0, Vals: []string{"a"}}, {Op: "in", Key: 1, Vals: []string{"x", "z"}}},
			gkeys:  [][]int{{0}, {0, 1}, {1, 0}}},
		{name: "not over every layer", series: three, script: strings.Split("wwpwwfwcqq", ""),
			conds: []*cnode{{Op: "and", L: &cnode{Op: "neq", Key: 0, Vals: []string{"x"}}, R: &cnode{Op: "notlike", Key: 1, Vals: []string{"b*"}}},
				{Op: "or", L: &cnode{Op: "nre", Key: 0, Vals: []string{"^[xy]"}}, R: eq(1, "b")}},
			gkeys: [][]int{{0}, {0, 1}}},
	}
}

func main() {
	cfg := vh.ParseFlags()
	r := vh.NewRand(cfg.Seed)
	out := vh.NewOut(cfg.Out, "From Coq Require Import List Arith NArith Bool.\nImport ListNotations.\nFrom LinDBV.C10 Require Import Model Check.\nOpen Scope nat_scope.\n")
	out.ShardSize = 15
	root, err := os.MkdirTemp("", "verif-c10-")
	if err != nil {
		panic(err)
	}
	defer os.RemoveAll(root)
	id := 0
	for _, c := range corpus() {
		runCase(out, root, id, c)
		id++
	}
	nBig := 1
	if cfg.Tier == "thorough" {
		nBig = 6
	}
	for i := 0; i < cfg.N; i++ {
		runCase(out, root, id, randomCase(r, i < nBig))
		id++
	}
	out.Notes = append(out.Notes, "conditions are rendered as SQL text and parsed by sql.Parse; regex filters are given to the model as the set of pool values the same regexp matches",
		"queries whose condition or group-by names a tag key unknown to the metric's schema are skipped (the lookup operator rejects them)")
	out.Finish()
}
