// C11 harness (storage side of a query): points written through DataFamily.WriteRows of a real engine, with flush /
// compaction / close+reopen placed between the writes; after every step everything a leaf scan would load
// (DataFamily.Filter over the memory databases and the files, then the loaders) is read per series, field and slot.
package main

import (
	"encoding/json"
	"fmt"
	"os"
	"path/filepath"
	"sort"
	"strings"
	"time"

	protoMetricsV1 "github.com/lindb/common/proto/gen/v1/linmetrics"
	"github.com/lindb/roaring"

	"github.com/lindb/lindb/flow"
	"github.com/lindb/lindb/index"
	"github.com/lindb/lindb/kv"
	"github.com/lindb/lindb/pkg/encoding"
	"github.com/lindb/lindb/pkg/option"
	"github.com/lindb/lindb/pkg/timeutil"
	"github.com/lindb/lindb/series/field"
	"github.com/lindb/lindb/series/metric"
	"github.com/lindb/lindb/sql/stmt"

	"lindbverif/node"
	"lindbverif/qh"
	"lindbverif/vh"
)

var (
	interval   = timeutil.Interval(10 * 1000)
	familyTime = time.Date(2019, 7, 2, 19, 0, 0, 0, time.UTC).UnixMilli()
	hosts      = []string{"a", "b", "c"}
	fieldDefs  = []struct {
		name string
		pt   protoMetricsV1.SimpleFieldType
		code int
	}{
		{"f1", protoMetricsV1.SimpleFieldType_DELTA_SUM, 1},
		{"f2", protoMetricsV1.SimpleFieldType_Min, 2},
		{"f3", protoMetricsV1.SimpleFieldType_Max, 3},
		{"f4", protoMetricsV1.SimpleFieldType_LAST, 4},
		{"f5", protoMetricsV1.SimpleFieldType_FIRST, 5},
	}
)

type point struct {
	Host int         `json:"host"`
	Slot int         `json:"slot"`
	Vals map[int]int `json:"values"` // field idx -> value
}

var debugRead bool

type world struct {
	n      *node.Node
	out    *vh.Out
	failed bool
	others int
}

func (w *world) fail(what string, err error) {
	w.failed = true
	w.out.Violation(0, "harness", fmt.Sprintf("%s: %v", what, err), nil)
}

func (w *world) write(p point) {
	pm := &protoMetricsV1.Metric{Name: "m", Namespace: "ns", Timestamp: familyTime + int64(p.Slot)*interval.Int64(),
		Tags: []*protoMetricsV1.KeyValue{{Key: "host", Value: hosts[p.Host]}}}
	var fs []int
	for f := range p.Vals {
		fs = append(fs, f)
	}
	sort.Ints(fs)
	for _, f := range fs {
		pm.SimpleFields = append(pm.SimpleFields, &protoMetricsV1.SimpleField{Name: fieldDefs[f].name, Type: fieldDefs[f].pt, Value: float64(p.Vals[f])})
	}
	var br metric.StorageBatchRows
	br.UnmarshalRows(node.Block(pm))
	if err := w.n.Family.WriteRows(br.Rows()); err != nil {
		w.fail("WriteRows", err)
	}
}

func (w *world) otherHour() error {
	ft := familyTime + int64(1+(w.others/2)%3)*3600000 // two visits per hour: the second finds the family without a memory database
	w.others++
	fam, err := w.n.Shard.GetOrCrateDataFamily(ft)
	if err != nil {
		return err
	}
	pm := &protoMetricsV1.Metric{Name: "m", Namespace: "ns", Timestamp: ft + 70000,
		Tags:         []*protoMetricsV1.KeyValue{{Key: "host", Value: hosts[0]}},
		SimpleFields: []*protoMetricsV1.SimpleField{{Name: fieldDefs[0].name, Type: fieldDefs[0].pt, Value: 77}}}
	var br metric.StorageBatchRows
	br.UnmarshalRows(node.Block(pm))
	if err := fam.WriteRows(br.Rows()); err != nil {
		return err
	}
	if err := w.n.FlushMetaAndIndex(); err != nil {
		return err
	}
	return fam.Flush()
}

// read everything a leaf scan loads: (host, field idx) -> sources oldest first, each slot -> value
func (w *world) read() (map[[2]int][]map[int]int, error) {
	out := map[[2]int][]map[int]int{}
	mid, err := w.n.DB.MetaDB().GetMetricID("ns", "m")
	if err != nil {
		return out, nil // nothing written yet
	}
	schema, err := w.n.DB.MetaDB().GetSchema(mid)
	if err != nil || schema == nil {
		return out, err
	}
	var fields field.Metas
	fidx := map[int]int{} // query field position -> field def idx
	for i, fd := range fieldDefs {
		if fm, ok := schema.Fields.Find(field.Name(fd.name)); ok {
			fm.Index = uint8(len(fields))
			fidx[len(fields)] = i
			fields = append(fields, fm)
		}
	}
	if len(fields) == 0 {
		return out, nil
	}
	sids := roaring.New()
	hostOf := map[uint32]int{}
	for h := range hosts {
		rows := node.Rows("ns", "m", map[string]string{"host": hosts[h]}, map[string]float64{"f1": 1}, familyTime)
		sid, ok, err := index.VerifLookupSeries(w.n.Shard.IndexDB(), mid, rows[0].TagsHash())
		if err != nil {
			return out, err
		}
		if ok {
			sids.Add(sid)
			hostOf[sid] = h
		}
	}
	if sids.IsEmpty() {
		return out, nil
	}
	sctx := &flow.StorageExecuteContext{
		MetricID: mid,
		Fields:   fields,
		Query: &stmt.Query{Interval: interval, StorageInterval: interval, IntervalRatio: 1,
			TimeRange: timeutil.TimeRange{Start: familyTime, End: familyTime + 3600*1000 - 1}},
	}
	shardCtx := flow.NewShardExecuteContext(sctx)
	shardCtx.SeriesIDsAfterFiltering = sids
	rss, err := w.n.Family.Filter(shardCtx)
	if err != nil {
		if strings.Contains(err.Error(), "not found") {
			return out, nil
		}
		return out, err
	}
	// Filter returns the memory databases first (mutable, immutable), then the files in version order (oldest first):
	// oldest first overall = files, then immutable, then mutable memory database
	var ordered []flow.FilterResultSet
	var mems []flow.FilterResultSet
	for _, rs := range rss {
		if strings.Contains(rs.Identifier(), "memory") {
			mems = append(mems, rs)
		} else {
			ordered = append(ordered, rs)
		}
	}
	// the order in which FindReaders lists the files is not chronological: sort by table number (part of the identifier)
	sort.Slice(ordered, func(i, j int) bool { return ordered[i].Identifier() < ordered[j].Identifier() })
	for i := len(mems) - 1; i >= 0; i-- {
		ordered = append(ordered, mems[i])
	}
	for _, rs := range ordered {
		src := map[[2]int]map[int]int{}
		order := 0
		for _, hk := range sids.GetHighKeys() {
			container := sids.GetContainer(hk)
			var cur *flow.DataLoadContext
			cur = &flow.DataLoadContext{
				ShardExecuteCtx: shardCtx, SeriesIDHighKey: hk, LowSeriesIDsContainer: container, Decoder: encoding.GetTSDDecoder(),
				DownSampling: func(slotRange timeutil.SlotRange, seriesIdx uint16, fieldIdx int, getter encoding.TSDValueGetter) {
					sid := uint32(hk)<<16 | uint32(cur.LowSeriesIDs[seriesIdx])
					key := [2]int{hostOf[sid], fidx[fieldIdx]}
					// inside one memory database the compressed block is delivered before the write window: keep both,
					// in that order, as separate sources
					k2 := [2]int{key[0]*100 + order, key[1]}
					_ = k2
					m := src[key]
					if m == nil {
						m = map[int]int{}
						src[key] = m
					} else {
						// a second delivery for the same key from the same result set: flush the first as its own source
						out[key] = append(out[key], m)
						m = map[int]int{}
						src[key] = m
					}
					for slot := int(slotRange.Start); slot <= int(slotRange.End); slot++ {
						if v, ok := getter.GetValue(uint16(slot)); ok {
							m[slot] = int(v)
						}
					}
				},
			}
			cur.Grouping()
			loader := rs.Load(cur)
			if loader != nil {
				loader.Load(cur)
			}
		}
		for key, m := range src {
			out[key] = append(out[key], m)
		}
		rs.Close()
	}
	return out, nil
}

func pointsCoq(m map[int]int) string {
	var slots []int
	for s := range m {
		slots = append(slots, s)
	}
	sort.Ints(slots)
	var xs []string
	for _, s := range slots {
		xs = append(xs, vh.Pair(vh.Z(int64(s)), vh.Z(int64(m[s]))))
	}
	return vh.List(xs)
}

type stepJ struct {
	K string `json:"k"`
	P *point `json:"point,omitempty"`
}

func runHistory(out *vh.Out, root string, id int, name string, script []stepJ) {
	w := &world{out: out}
	dir := filepath.Join(root, fmt.Sprintf("h%d", id))
	defer os.RemoveAll(dir)
	n, err := node.Open(dir, option.Intervals{{Interval: interval}}, familyTime, false)
	if err != nil {
		out.Violation(0, "open", err.Error(), nil)
		return
	}
	w.n = n
	// per key: the model's events (all flushes, the key's writes)
	evs := map[[2]int][]string{}
	keysSeen := map[[2]int]bool{}
	compacted := false
	var obsAt []map[[2]int][]map[int]int
	nw, nf := 0, 0
	outOfOrder, revisit := false, false
	lastSlot := map[[2]int]int{}
	var checks []string
	for si, s := range script {
		if w.failed {
			break
		}
		switch s.K {
		case "w":
			w.write(*s.P)
			nw++
			for f, v := range s.P.Vals {
				key := [2]int{s.P.Host, f}
				keysSeen[key] = true
				evs[key] = append(evs[key], fmt.Sprintf("FWrite %d %d", s.P.Slot, v))
				if ls, ok := lastSlot[key]; ok && s.P.Slot < ls {
					outOfOrder = true
				}
				if ls, ok := lastSlot[key]; ok && s.P.Slot == ls {
					revisit = true
				}
				lastSlot[key] = s.P.Slot
			}
		case "f":
			if err := w.n.FlushMetaAndIndex(); err != nil {
				w.fail("meta flush", err)
			}
			if err := w.n.Family.Flush(); err != nil {
				w.fail("flush", err)
			}
			nf++
			for key := range keysSeen {
				evs[key] = append(evs[key], "FFlush")
			}
		case "c":
			fam := w.n.Family.Family()
			fam.Compact()
			time.Sleep(2 * time.Millisecond)
			kv.VerifWaitBackground(fam)
			compacted = true
		case "x":
			// another hour of the day: the same metric and series written into a second family of the shard right now
			// (its memory database is created in the same instant as the next one of the family under test) and
			// flushed at once; nothing the family under test shows may change
			if err := w.otherHour(); err != nil {
				w.fail("other hour", err)
			}
		case "o":
			w.n.Close() // a clean close flushes
			n2, err := node.Open(dir, option.Intervals{{Interval: interval}}, familyTime, false)
			if err != nil {
				w.fail("reopen", err)
				break
			}
			w.n = n2
			for key := range keysSeen {
				evs[key] = append(evs[key], "FFlush")
			}
		}
		o, err := w.read()
		if err != nil {
			w.fail("read", err)
		}
		obsAt = append(obsAt, o)
		if debugRead {
			fmt.Fprintf(os.Stderr, "DBG step %d %s %v -> host1: f1=%v f4=%v\n", si, s.K, s.P, o[[2]int{1, 0}], o[[2]int{1, 3}])
		}
		// checkpoint: every flush / compaction / reopen, a fifth of the writes, and the last step
		if s.K != "w" || si == len(script)-1 || (nw%5 == 0) {
			var keys [][2]int
			for k := range keysSeen {
				keys = append(keys, k)
			}
			sort.Slice(keys, func(i, j int) bool { return keys[i][0]*10+keys[i][1] < keys[j][0]*10+keys[j][1] })
			for _, k := range keys {
				var srcs []string
				for _, m := range o[k] {
					srcs = append(srcs, pointsCoq(m))
				}
				checks = append(checks, fmt.Sprintf("(%d%%nat, %s, %s, %s)", fieldDefs[k[1]].code, vh.Bool(compacted), vh.List(evs[k]), vh.List(srcs)))
			}
			out.Count("checkpoint")
		}
	}
	w.n.Close()
	if len(obsAt) == 0 {
		return
	}
	out.CountN("writes", nw)
	out.CountN("flushes", nf)
	if outOfOrder {
		out.Count("history:out-of-order-slots")
	}
	if revisit {
		out.Count("history:slot-written-twice-in-a-row")
	}
	if compacted {
		out.Count("history:compaction")
	}
	idx := out.Case(map[string]interface{}{"kind": "history", "name": name, "steps": script}, nw >= 8 && nf >= 2 && outOfOrder)
	out.Check(idx, fmt.Sprintf("check_keys %s", vh.List(checks)))
}

func randomScript(r *vh.Rand) []stepJ {
	n := r.Range(10, 60)
	var sc []stepJ
	base := r.Intn(300)
	for i := 0; i < n; i++ {
		x := r.Intn(100)
		switch {
		case x < 6:
			// a window that ends up around an older compressed block, then leaves it
			h := r.Intn(len(hosts))
			s0 := 20 + r.Intn(300)
			vals := func() map[int]int {
				m := map[int]int{}
				for f := range fieldDefs {
					m[f] = r.Range(1, 99)
				}
				return m
			}
			sc = append(sc, stepJ{K: "w", P: &point{Host: h, Slot: s0, Vals: vals()}}, stepJ{K: "w", P: &point{Host: h, Slot: s0 - r.Range(1, 5), Vals: vals()}},
				stepJ{K: "w", P: &point{Host: h, Slot: s0 + r.Range(1, 5), Vals: vals()}}, stepJ{K: "w", P: &point{Host: h, Slot: (s0 + 100) % 360, Vals: vals()}})
		case x < 80:
			slot := base + r.Intn(40)
			switch r.Intn(10) {
			case 0:
				slot = r.Intn(360) // far away: a new write window
			case 1, 2:
				slot = base // the same slot again
			case 3:
				slot = base - r.Range(1, 6) // just before everything written around here
				if slot < 0 {
					slot = 0
				}
			}
			if slot > 359 {
				slot = 359
			}
			p := &point{Host: r.Intn(len(hosts)), Slot: slot, Vals: map[int]int{}}
			for f := range fieldDefs {
				if r.Chance(60) {
					p.Vals[f] = r.Range(1, 99)
				}
			}
			if len(p.Vals) == 0 {
				p.Vals[0] = 1
			}
			sc = append(sc, stepJ{K: "w", P: p})
			if r.Chance(20) {
				base = r.Intn(300)
			}
		case x < 89:
			sc = append(sc, stepJ{K: "f"})
		case x < 92:
			sc = append(sc, stepJ{K: "x"})
		case x < 96:
			sc = append(sc, stepJ{K: "c"})
		default:
			sc = append(sc, stepJ{K: "o"})
		}
	}
	return sc
}

func main() {
	cfg := vh.ParseFlags()
	r := vh.NewRand(cfg.Seed)
	out := vh.NewOut(cfg.Out, "From Coq Require Import List ZArith Bool.\nImport ListNotations.\nFrom LinDBV.C11 Require Import Model Check.\nFrom LinDBV.C12 Require Import Model Check.\nFrom LinDBV.C11 Require Import QCheck.\nFrom LinDBV.C11 Require Overlap.\nOpen Scope Z_scope.\n")
	out.ShardSize = 10
	root, err := os.MkdirTemp("", "verif-c11-")
	if err != nil {
		panic(err)
	}
	defer os.RemoveAll(root)
	if f := os.Getenv("VERIF_C11_REPLAY"); f != "" {
		var steps []stepJ
		b, _ := os.ReadFile(f)
		_ = json.Unmarshal(b, &steps)
		debugRead = true
		runHistory(out, root, 0, "replay", steps)
		out.Finish()
		return
	}
	wp := func(h, slot int, vals map[int]int) stepJ {
		return stepJ{K: "w", P: &point{Host: h, Slot: slot, Vals: vals}}
	}
	all := func(v int) map[int]int { return map[int]int{0: v, 1: v, 2: v, 3: v, 4: v} }
	runHistory(out, root, 0, "out-of-order slots inside one write window", []stepJ{wp(0, 5, all(1)), wp(0, 9, all(2)), wp(0, 7, all(3)), {K: "f"}})
	runHistory(out, root, 1, "a slot revisited after a window change", []stepJ{wp(0, 5, all(1)), wp(0, 100, all(2)), wp(0, 5, all(3)), wp(0, 200, all(9)), {K: "f"}})
	runHistory(out, root, 2, "a write window that extends the compressed block on both sides", []stepJ{wp(0, 100, all(1)), wp(0, 99, all(3)), wp(0, 101, all(4)), wp(0, 200, all(5)), wp(1, 50, all(1)), wp(1, 49, all(2)), wp(1, 51, all(3)), wp(1, 300, all(4)), wp(1, 52, all(5)), {K: "f"}})
	runHistory(out, root, 3, "a flushed block that holds one field which is not the first of the query", []stepJ{wp(0, 10, all(1)), {K: "f"}, wp(0, 20, map[int]int{3: 5}), wp(1, 20, map[int]int{2: 7}), {K: "f"}, wp(0, 30, map[int]int{4: 9}), {K: "f"}})
	runHistory(out, root, 4, "two families of the shard get their memory databases in the same instant, the other one is flushed", []stepJ{wp(0, 10, all(1)), {K: "x"}, {K: "f"}, wp(0, 20, all(2)), {K: "x"}, wp(0, 30, all(3)), {K: "f"}})
	for i := 0; i < cfg.N; i++ {
		runHistory(out, root, 5+i, "random", randomScript(r))
	}
	// the query level: statements answered by the real query path on one storage node
	nq := cfg.N / 4
	if nq < 3 {
		nq = 3
	}
	qh.C11QueryWorlds(out, root, cfg.Seed, nq)
	// a statement answered while the family is being flushed, under forced schedules
	no := cfg.N / 10
	if no < 2 {
		no = 2
	}
	qh.C11OverlapWorlds(out, root, cfg.Seed, no)
	out.Notes = append(out.Notes, "only the last step's read is compared per key (the reads after the earlier steps exercise the load path on every intermediate state and fail the case on an error)")
	out.Finish()
}
