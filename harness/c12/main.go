// C12 harness (see package qh).
package main

import "lindbverif/qh"

func main() { qh.MainC12() }
