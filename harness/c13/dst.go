package main

import (
	"fmt"
	"time"
	_ "time/tzdata" // the zone database travels with the binary

	"github.com/lindb/lindb/pkg/timeutil"

	"lindbverif/vh"
)

// Zones with daylight saving (the Coq model has fixed offsets only): the clauses of the property are judged directly on the
// calculators, on every five minutes and on the boundary milliseconds of the three days around each change of offset.
// "families": the family range contains the timestamp, CalcFamilyTime is the family's start, the millisecond after the end
// starts the next family, start and end of a family map to that family.  "slots": start + slot*interval lies within one
// interval below the timestamp.
func dstCases(out *vh.Out) {
	saved := time.Local
	defer func() { time.Local = saved }()
	for _, zone := range []string{"America/New_York", "Europe/Berlin"} {
		loc, err := time.LoadLocation(zone)
		if err != nil {
			out.Violation(0, "harness", "zone "+zone+": "+err.Error(), nil)
			return
		}
		time.Local = loc
		for year := 2020; year <= 2022; year++ {
			// the days on which the offset changes
			var changes []time.Time
			d := time.Date(year, 1, 1, 12, 0, 0, 0, loc)
			_, off := d.Zone()
			for d.Year() == year {
				if _, o := d.Zone(); o != off {
					changes = append(changes, d)
					off = o
				}
				d = d.AddDate(0, 0, 1)
			}
			for _, ch := range changes {
				_, o1 := ch.AddDate(0, 0, -1).Zone()
				_, o2 := ch.Zone()
				kind := "23-hour-day"
				if o2 < o1 {
					kind = "25-hour-day"
				}
				for _, iv := range []int64{10 * 1000, 5 * 60 * 1000, 3600 * 1000} {
					calc := timeutil.Interval(iv).Calculator()
					tname := timeutil.Interval(iv).Type().String()
					from := time.Date(ch.Year(), ch.Month(), ch.Day()-2, 0, 0, 0, 0, loc).UnixMilli()
					to := time.Date(ch.Year(), ch.Month(), ch.Day()+1, 0, 0, 0, 0, loc).UnixMilli()
					var tss []int64
					for ts := from; ts <= to; ts += 5 * 60 * 1000 {
						tss = append(tss, ts, ts-1, ts+1)
					}
					famBad, slotBad := "", ""
					for _, ts := range tss {
						seg := calc.CalcSegmentTime(ts)
						fam := calc.CalcFamily(ts, seg)
						start := calc.CalcFamilyStartTime(seg, fam)
						end := calc.CalcFamilyEndTime(start)
						at := time.UnixMilli(ts).In(loc).Format("2006-01-02 15:04:05.000 MST")
						if famBad == "" {
							switch {
							case ts < start || ts > end:
								famBad = fmt.Sprintf("%s: family [%d, %d] does not contain %d", at, start, end, ts)
							case calc.CalcFamilyTime(ts) != start:
								famBad = fmt.Sprintf("%s: CalcFamilyTime = %d, the family starts at %d", at, calc.CalcFamilyTime(ts), start)
							case calc.CalcFamilyTime(end) != start || calc.CalcFamilyTime(start) != start:
								famBad = fmt.Sprintf("%s: start %d / end %d of the family map to families %d / %d", at, start, end, calc.CalcFamilyTime(start), calc.CalcFamilyTime(end))
							case calc.CalcFamilyTime(end+1) != end+1:
								famBad = fmt.Sprintf("%s: the millisecond after the family's end %d belongs to the family starting at %d", at, end, calc.CalcFamilyTime(end+1))
							}
						}
						if slotBad == "" {
							slot := int64(calc.CalcSlot(ts, start, iv))
							if diff := ts - (start + slot*iv); diff < 0 || diff >= iv {
								slotBad = fmt.Sprintf("%s: slot %d of the family starting at %d lies %d ms from the timestamp", at, slot, start, diff)
							}
						}
					}
					for _, part := range []struct{ name, bad string }{{"families", famBad}, {"slots", slotBad}} {
						d := map[string]interface{}{"kind": "dst-" + part.name, "zone": zone, "change": ch.Format("2006-01-02"), "day": kind, "interval": iv, "type": tname}
						idx := out.Case(d, true)
						out.Count("dst-" + part.name + ":" + tname)
						if part.bad != "" {
							out.Violation(idx, "dst-"+part.name, part.bad, nil)
						}
						out.Check(idx, "(0%nat, 0%nat)")
					}
				}
			}
		}
	}
}
