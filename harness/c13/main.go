// C13 harness: interval calculators on boundary and random timestamps, query planner cases.
package main

import (
	"fmt"
	"os"
	"time"

	protoMetricsV1 "github.com/lindb/common/proto/gen/v1/linmetrics"

	"github.com/lindb/lindb/models"
	"github.com/lindb/lindb/pkg/option"
	"github.com/lindb/lindb/pkg/timeutil"
	querycontext "github.com/lindb/lindb/query/context"
	"github.com/lindb/lindb/series/metric"
	"github.com/lindb/lindb/sql/stmt"

	"lindbverif/node"
	"lindbverif/vh"
)

const (
	sec  = int64(1000)
	min  = 60 * sec
	hour = 60 * min
	day  = 24 * hour
)

var intervals = map[int][]int64{ // by type: 0 day, 1 month, 2 year
	0: {1 * sec, 10 * sec, 30 * sec, 1 * min, 7 * sec},
	1: {5 * min, 10 * min, 30 * min, 7 * min},
	2: {1 * hour, 2 * hour, 1 * day, 5 * hour},
}

func calcCase(out *vh.Out, off int, tn int, ts int64, iv int64, boundary bool) {
	calc := timeutil.Interval(iv).Calculator()
	seg := calc.CalcSegmentTime(ts)
	fam := calc.CalcFamily(ts, seg)
	start := calc.CalcFamilyStartTime(seg, fam)
	ftime := calc.CalcFamilyTime(ts)
	end := calc.CalcFamilyEndTime(start)
	slot := calc.CalcSlot(ts, start, iv)
	nextF := calc.CalcFamilyTime(end + 1)
	endF := calc.CalcFamilyTime(end)
	desc := map[string]interface{}{"kind": "calc", "off": off, "type": tn, "ts": ts, "interval": iv}
	idx := out.Case(desc, boundary)
	out.Count(fmt.Sprintf("calc:type%d", tn))
	if boundary {
		out.Count("calc:boundary")
	}
	// segment name round trip (string formatting is not modelled: checked directly)
	name := calc.GetSegment(ts)
	if back, err := calc.ParseSegmentTime(name); err != nil || back != seg {
		out.Violation(idx, "segment-roundtrip", fmt.Sprintf("GetSegment(%d)=%q parses to %d (err %v), CalcSegmentTime=%d", ts, name, back, err, seg), nil)
	}
	if got := int64(iv) * 0; got != 0 { // keep iv used
		_ = got
	}
	out.Check(idx, fmt.Sprintf("check_calc %s %s %s %s {| c_seg := %s; c_family := %s; c_start := %s; c_ftime := %s; c_end := %s; c_slot := %s; c_next_ftime := %s; c_end_ftime := %s |}",
		vh.Z(int64(off)), vh.Z(int64(tn)), vh.Z(ts), vh.Z(iv), vh.Z(seg), vh.Z(int64(fam)), vh.Z(start), vh.Z(ftime), vh.Z(end), vh.Z(int64(slot)), vh.Z(nextF), vh.Z(endF)))
}

// brokerCase groups a batch of rows (one per timestamp, arrival order) with the broker's shard and family iterators.
func brokerCase(out *vh.Out, off int, iv int64, tss []int64) {
	batch := metric.NewBrokerBatchRows()
	defer batch.Release()
	for _, ts := range tss {
		block := node.Block(&protoMetricsV1.Metric{Name: "m", Namespace: "ns", Timestamp: ts,
			SimpleFields: []*protoMetricsV1.SimpleField{{Name: "f", Type: protoMetricsV1.SimpleFieldType_DELTA_SUM, Value: 1}}})
		if err := batch.TryAppend(func(row *metric.BrokerRow) error { row.FromBlock(block); return nil }); err != nil {
			out.Violation(0, "append", err.Error(), nil)
			return
		}
	}
	var groups []string
	var groupsJ []interface{}
	ngroups := 0
	it := batch.NewShardGroupIterator(1)
	for it.HasRowsForNextShard() {
		_, fit := it.FamilyRowsForNextShard(timeutil.Interval(iv))
		for fit.HasNextFamily() {
			ft, rows := fit.NextFamily()
			var members []int64
			for i := range rows {
				m := rows[i].Metric()
				members = append(members, m.Timestamp())
			}
			groups = append(groups, vh.Pair(vh.Z(ft), vh.ZList(members)))
			groupsJ = append(groupsJ, map[string]interface{}{"family": ft, "timestamps": members})
			ngroups++
		}
	}
	idx := out.Case(map[string]interface{}{"kind": "broker-batch", "zone_offset": off, "interval": iv, "timestamps": tss, "groups": groupsJ}, ngroups >= 2 && len(tss) >= 3)
	out.Count("broker-batch")
	out.Count(fmt.Sprintf("broker-batch-groups:%d", ngroups))
	out.Check(idx, fmt.Sprintf("check_broker %s %s %s %s", vh.Z(int64(off)), vh.Z(iv), vh.ZList(tss), vh.List(groups)))
}

func rangeFamilies(out *vh.Out, r *vh.Rand, iv int64, nRanges int) {
	dir, err := os.MkdirTemp("", "verif-c13-")
	if err != nil {
		panic(err)
	}
	defer os.RemoveAll(dir)
	calc := timeutil.Interval(iv).Calculator()
	now := time.Now().UnixMilli()
	cur := calc.CalcFamilyTime(now)
	// family start times going back from the current family, one of them left out
	var starts []int64
	f := cur
	for i := 0; i < 5; i++ {
		starts = append(starts, f)
		f = calc.CalcFamilyTime(f - 1)
	}
	skip := r.Range(1, 3)
	n, err := node.Open(dir, option.Intervals{{Interval: timeutil.Interval(iv), Retention: timeutil.Interval(40 * 24 * 3600 * 1000)}}, starts[0], false)
	if err != nil {
		out.Violation(0, "open", err.Error(), nil)
		return
	}
	defer n.Close()
	var existing []int64
	for i, st := range starts {
		if i == skip {
			continue
		}
		if _, err := n.Shard.GetOrCrateDataFamily(st + 1000); err != nil {
			out.Violation(0, "create family", err.Error(), nil)
			return
		}
		existing = append(existing, st)
	}
	edge := func() int64 {
		st := starts[r.Intn(len(starts))]
		end := calc.CalcFamilyEndTime(st)
		return []int64{st, st - 1, st + 1, end, end + 1, st + iv, st - iv, st + int64(r.Intn(int(end-st)))}[r.Intn(8)]
	}
	for k := 0; k < nRanges; k++ {
		lo, hi := edge(), edge()
		if lo > hi {
			lo, hi = hi, lo
		}
		var got []int64
		for _, fam := range n.Shard.GetDataFamilies(timeutil.Interval(iv).Type(), timeutil.TimeRange{Start: lo, End: hi}) {
			got = append(got, fam.TimeRange().Start)
		}
		idx := out.Case(map[string]interface{}{"kind": "range-families", "interval": iv, "families": existing, "lo": lo, "hi": hi, "got": got}, len(got) >= 2)
		out.Count("range-families")
		out.Check(idx, fmt.Sprintf("check_range_families 0 %s %s %s %s %s", vh.Z(iv), vh.ZList(existing), vh.Z(lo), vh.Z(hi), vh.ZList(got)))
	}
}

func main() {
	cfg := vh.ParseFlags()
	r := vh.NewRand(cfg.Seed)
	out := vh.NewOut(cfg.Out, "From Coq Require Import ZArith List Bool.\nImport ListNotations.\nFrom LinDBV.C13 Require Import Model Check.\nOpen Scope Z_scope.\n")
	out.ShardSize = 500
	// fixed zones: UTC, whole-hour offsets, and offsets that are not a whole hour (+05:30, +05:45, -03:30): families and
	// segments are cut on the local clock, so "truncate to the UTC hour" is right only in the first two kinds
	offs := []int{0, 19800}
	if cfg.Tier == "thorough" {
		offs = []int{0, 8 * 3600, -5 * 3600, 19800, 20700, -12600}
	} else if cfg.Seed%2 == 0 {
		offs = []int{8 * 3600, -12600}
	}
	for _, off := range offs {
		time.Local = time.FixedZone("verif", off)
		// ---- boundary table: first/last days of every month of a multi-year window, leap days, year ends
		y0, y1 := 2018, 2026
		if cfg.Tier == "thorough" {
			y0, y1 = 1971, 2100
		}
		for y := y0; y <= y1; y++ {
			if cfg.Tier != "thorough" && y != 2024 && (y+int(cfg.Seed))%4 != 0 {
				continue
			}
			for m := 1; m <= 12; m++ {
				first := time.Date(y, time.Month(m), 1, 0, 0, 0, 0, time.Local)
				last := time.Date(y, time.Month(m)+1, 0, 0, 0, 0, 0, time.Local) // last day of month
				days := []time.Time{first, last}
				if m == 1 || m == 3 {
					days = append(days, time.Date(y, time.Month(m), 30, 0, 0, 0, 0, time.Local), time.Date(y, time.Month(m), 31, 0, 0, 0, 0, time.Local))
				}
				for _, d := range days {
					s := d.UnixNano() / 1e6
					for _, ts := range []int64{s - 1, s, s + 1, s + 12*hour + 34567, s + day - 1, s + 59*min + 59999, s + hour} {
						if ts < 0 {
							continue
						}
						tn := r.Intn(3)
						ivs := intervals[tn]
						calcCase(out, off, tn, ts, ivs[r.Intn(len(ivs))], true)
					}
				}
			}
		}
		// ---- random millisecond timestamps 1970..2200
		for i := 0; i < cfg.N; i++ {
			ts := int64(r.U64() % uint64(7258118400000))
			if r.Chance(30) { // near an hour/day boundary
				ts = ts / hour * hour
				ts += int64(r.Range(-2, 2))
				if ts < 0 {
					ts = 0
				}
			}
			tn := r.Intn(3)
			ivs := intervals[tn]
			calcCase(out, off, tn, ts, ivs[r.Intn(len(ivs))], false)
		}
		// ---- the broker's grouping of a batch by family: timestamps around family boundaries in arrival order
		for i := 0; i < cfg.N/8+6; i++ {
			tn := r.Intn(3)
			ivs := intervals[tn]
			iv := ivs[r.Intn(len(ivs))]
			base := int64(r.U64() % uint64(4000000000000))
			// a boundary of the family that contains base
			calc := timeutil.Interval(iv).Calculator()
			fstart := calc.CalcFamilyTime(base)
			atSegmentStart := r.Chance(40)
			if atSegmentStart {
				// the first family of a segment (hour 0 of a day, day 1 of a month, January): its neighbour below lies in
				// another segment
				fstart = calc.CalcFamilyTime(calc.CalcSegmentTime(base))
			}
			fend := calc.CalcFamilyEndTime(fstart)
			n := r.Range(2, 7)
			var tss []int64
			for j := 0; j < n; j++ {
				if atSegmentStart {
					// the first row (it decides the fast path's family) inside, the others inside or just below the segment
					if j == 0 || r.Bool() || fstart <= 40000 {
						tss = append(tss, fstart+int64(r.Intn(30000)))
					} else {
						tss = append(tss, fstart-1-int64(r.Intn(30000)))
					}
					continue
				}
				switch r.Intn(5) {
				case 0:
					tss = append(tss, fend-int64(r.Intn(30000)))
				case 1:
					tss = append(tss, fend+1+int64(r.Intn(30000)))
				case 2:
					tss = append(tss, fstart+int64(r.Intn(30000)))
				case 3:
					if fstart > 40000 {
						tss = append(tss, fstart-1-int64(r.Intn(30000)))
					} else {
						tss = append(tss, fstart)
					}
				default:
					tss = append(tss, fstart+int64(r.U64()%uint64(fend-fstart+1)))
				}
			}
			brokerCase(out, off, iv, tss)
			if r.Chance(50) {
				// the next requests, for databases of other interval types, get the same pooled batch (BrokerBatchRows come from a
				// process-wide pool shared by all databases of a broker) and carry timestamps of the same hours and days
				for k := 0; k < 2; k++ {
					tn2 := (tn + 1 + r.Intn(2)) % 3
					if k == 1 {
						tn2 = tn
					}
					ivs2 := intervals[tn2]
					tss2 := make([]int64, len(tss))
					for j, ts := range tss {
						tss2[j] = ts + int64(r.Intn(3))*3600000*int64(r.Range(0, 3))
					}
					brokerCase(out, off, ivs2[r.Intn(len(ivs2))], tss2)
					out.Count("broker-batch-pooled-after-another-interval-type")
				}
			}
		}
	}
	dstCases(out)
	time.Local = time.UTC

	// ---- the families a query range selects, on a real shard: families created for consecutive hours (10 s store) or
	// days (5 min store) up to now, ranges whose ends fall on, just below and just above family boundaries
	for _, iv := range []int64{10 * sec, 5 * min} {
		rangeFamilies(out, r, iv, cfg.N/40+3)
	}

	// ---- planner
	ivSets := [][]int64{{10 * sec}, {10 * sec, 5 * min, hour}, {sec, 10 * min}, {30 * sec, hour, day}, {10 * sec, 7 * min}}
	for i := 0; i < cfg.N; i++ {
		set := ivSets[r.Intn(len(ivSets))]
		var opt option.DatabaseOption
		for _, iv := range set {
			opt.Intervals = append(opt.Intervals, option.Interval{Interval: timeutil.Interval(iv), Retention: timeutil.Interval(30 * day)})
		}
		start := int64(r.U64()%uint64(2000000000000)) + 1
		spans := []int64{0, 999, 5 * min, 59 * min, hour, 2 * hour, 5 * hour, 11 * hour, 23 * hour, 36 * hour, 6 * day, 29 * day, 45 * day, 80 * day, 400 * day}
		span := spans[r.Intn(len(spans))] + int64(r.Intn(100000))
		end := start + span
		qis := []int64{0, 0, -1, sec, 10 * sec, 15 * sec, min, 5 * min, 13 * min, hour, 3 * hour, day}
		qi := qis[r.Intn(len(qis))]
		auto := r.Chance(25)
		q := &stmt.Query{TimeRange: timeutil.TimeRange{Start: start, End: end}, Interval: timeutil.Interval(qi), AutoGroupByTime: auto}
		querycontext.VerifCalcTimeRangeAndInterval(q, models.Database{Name: "d", Option: &opt})
		probes := []int64{start, end, (start + end) / 2, start + span/3}
		desc := map[string]interface{}{"kind": "plan", "intervals": set, "start": start, "end": end, "interval": qi, "auto": auto}
		changed := int64(q.Interval) != qi || q.TimeRange.Start != start
		idx := out.Case(desc, changed && len(set) > 1)
		out.Count("plan")
		out.Check(idx, fmt.Sprintf("check_plan %s %s %s %s %s %s {| o_start := %s; o_end := %s; o_interval := %s; o_storage := %s; o_ratio := %s |}",
			vh.ZList(set), vh.Z(start), vh.Z(end), vh.Z(qi), vh.Bool(auto), vh.ZList(probes),
			vh.Z(q.TimeRange.Start), vh.Z(q.TimeRange.End), vh.Z(int64(q.Interval)), vh.Z(int64(q.StorageInterval)), vh.Z(int64(q.IntervalRatio))))
	}
	out.Finish()
}
