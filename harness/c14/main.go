// C14 harness: real encoders/decoders (fresh and pooled, under PRNG-chosen reuse histories);
// emits the bytes they produced and what the decoders read back.
package main

import (
	"bytes"
	"encoding/binary"
	"fmt"
	"math"

	"github.com/lindb/roaring"

	"github.com/lindb/lindb/pkg/bit"
	"github.com/lindb/lindb/pkg/compress"
	"github.com/lindb/lindb/pkg/encoding"
	"github.com/lindb/lindb/pkg/stream"

	"lindbverif/vh"
)

func zbytes(b []byte) string {
	xs := make([]string, len(b))
	for i, x := range b {
		xs[i] = fmt.Sprintf("%d", x)
	}
	return vh.List(xs)
}
func optZ(ok bool, v uint64) string {
	if !ok {
		return "None"
	}
	return fmt.Sprintf("(Some %d)", v)
}

var special = []uint64{
	0, 0x8000000000000000, // +0 -0
	0x3FF0000000000000, 0x4000000000000000, 0xBFF0000000000000, // 1 2 -1
	0x7FF0000000000000, 0xFFF0000000000000, // +Inf -Inf
	0x7FF8000000000001, 0x7FF0000000000001, 0xFFFFFFFFFFFFFFFF, // NaN payloads
	1, 0x000FFFFFFFFFFFFF, 0x0010000000000000, // subnormals, smallest normal
	0x7FEFFFFFFFFFFFFF, 0x3FB999999999999A, 0x5555555555555555, 0xAAAAAAAAAAAAAAAA,
}

type slotv struct {
	Has bool   `json:"has"`
	V   uint64 `json:"v"`
}

func genSlots(r *vh.Rand) []slotv {
	n := r.Range(0, 40)
	if r.Chance(10) {
		n = r.Range(60, 200)
	}
	kind := r.Intn(6)
	var out []slotv
	cur := math.Float64bits(float64(r.Range(1, 1000)))
	for i := 0; i < n; i++ {
		has := true
		switch kind {
		case 0: // dense
		case 1: // sparse
			has = r.Chance(25)
		case 2: // empty
			has = false
		default:
			has = r.Chance(70)
		}
		var v uint64
		switch r.Intn(6) {
		case 0:
			v = special[r.Intn(len(special))]
		case 1:
			v = r.U64()
		case 2: // slowly varying: exercises the leading/trailing window reuse
			cur = math.Float64bits(math.Float64frombits(cur) + float64(r.Range(-3, 3))*0.25)
			v = cur
		case 3: // constant
			v = cur
		case 4: // flip few low bits
			cur ^= uint64(r.Intn(256))
			v = cur
		default:
			v = math.Float64bits(float64(r.Range(-1000000, 1000000)))
		}
		out = append(out, slotv{has, v})
	}
	return out
}

func main() {
	cfg := vh.ParseFlags()
	r := vh.NewRand(cfg.Seed)
	out := vh.NewOut(cfg.Out, "From Coq Require Import ZArith List Bool.\nImport ListNotations.\nFrom LinDBV.C14 Require Import Check.\nOpen Scope Z_scope.\n")
	out.ShardSize = 150

	// ---------- TSD blocks: fresh and pooled encoders/decoders ----------
	var heldEnc []*encoding.TSDEncoder
	var heldDec []*encoding.TSDDecoder
	ownDec := encoding.NewTSDDecoder(nil) // one decoder object reused for every block
	for i := 0; i < cfg.N; i++ {
		slots := genSlots(r)
		start := r.Range(0, 65535-len(slots))
		if r.Chance(10) {
			start = 65536 - len(slots) - r.Intn(2)
			if start < 0 {
				start = 0
			}
		}
		var enc *encoding.TSDEncoder
		mode := r.Intn(3)
		switch mode {
		case 0:
			enc = encoding.NewTSDEncoder(uint16(start))
		case 1:
			enc = encoding.GetTSDEncoder(uint16(start))
		default:
			if len(heldEnc) > 0 {
				enc = heldEnc[len(heldEnc)-1]
				heldEnc = heldEnc[:len(heldEnc)-1]
				enc.RestWithStartTime(uint16(start))
			} else {
				enc = encoding.GetTSDEncoder(uint16(start))
			}
		}
		for _, s := range slots {
			if s.Has {
				enc.AppendTime(bit.One)
				enc.AppendValue(s.V)
			} else {
				enc.AppendTime(bit.Zero)
			}
		}
		withTime := r.Chance(75)
		var data []byte
		var err error
		if withTime {
			data, err = enc.Bytes()
		} else {
			data, err = enc.BytesWithoutTime()
		}
		data = append([]byte(nil), data...)
		if r.Chance(50) {
			encoding.ReleaseTSDEncoder(enc)
		} else {
			heldEnc = append(heldEnc, enc)
		}
		windowChanges, empties := 0, 0
		for _, s := range slots {
			if !s.Has {
				empties++
			}
		}
		vals := 0
		for _, s := range slots {
			if s.Has {
				vals++
			}
		}
		if vals >= 3 {
			windowChanges = 1
		}
		idx := out.Case(map[string]interface{}{"kind": "tsd", "start": start, "slots": slots, "with_time": withTime, "encoder": []string{"fresh", "pool", "held-reused"}[mode]},
			vals >= 3 && windowChanges >= 1 && empties >= 1)
		out.Count("tsd")
		out.Count("tsd:encoder:" + []string{"fresh", "pool", "held-reused"}[mode])
		if err != nil {
			out.Violation(idx, "encode-error", err.Error(), nil)
			continue
		}
		// decode: sequential and slot-addressed, with a pooled / reused decoder
		var seqread, slotread []string
		decode := func(slotMode bool) []string {
			var dec *encoding.TSDDecoder
			switch r.Intn(3) {
			case 0:
				dec = encoding.NewTSDDecoder(nil)
			case 1:
				dec = encoding.GetTSDDecoder()
				defer encoding.ReleaseTSDDecoder(dec)
			default:
				dec = ownDec
				if len(heldDec) > 0 && r.Bool() {
					dec = heldDec[0]
				}
			}
			if len(data) == 0 {
				return nil
			}
			if withTime {
				dec.Reset(data)
			} else {
				dec.ResetWithTimeRange(data, uint16(start), uint16(start+len(slots)-1))
			}
			var res []string
			if slotMode {
				for s := int(dec.StartTime()); s <= int(dec.EndTime()); s++ {
					v, ok := dec.GetValue(uint16(s))
					res = append(res, optZ(ok, math.Float64bits(v)))
				}
			} else {
				for steps := 0; dec.Next(); steps++ {
					if steps > len(slots)+3 {
						res = append(res, "(Some 1)", "(Some 1)") // iteration does not stop at the last slot
						break
					}
					if dec.HasValue() {
						res = append(res, optZ(true, dec.Value()))
					} else {
						res = append(res, "None")
					}
				}
			}
			if dec.Error() != nil {
				res = append(res, "(Some 0)", "(Some 0)", "(Some 0)") // make the mismatch visible
			}
			return res
		}
		if len(slots) > 0 {
			seqread = decode(false)
			slotread = decode(true)
		}
		var sl []string
		for _, s := range slots {
			sl = append(sl, optZ(s.Has, s.V))
		}
		out.Check(idx, fmt.Sprintf("check_tsd %d %s %s %s\n %s %s", start, vh.List(sl), vh.Bool(withTime), zbytes(data), vh.List(seqread), vh.List(slotread)))
	}

	// ---------- delta bit packing ----------
	reusedDelta := encoding.NewDeltaBitPackingEncoder()
	reusedDelta.Reset()
	for i := 0; i < cfg.N/2; i++ {
		n := r.Range(1, 30)
		var vs []int32
		cur := int32(r.Range(-1000, 1000))
		kind := r.Intn(5)
		for j := 0; j < n; j++ {
			switch kind {
			case 0:
				cur += int32(r.Range(0, 20))
			case 1:
				cur += int32(r.Range(-50, 50))
			case 2:
				cur = int32(r.U64())
			case 3:
				cur = []int32{math.MaxInt32, math.MinInt32, 0, -1, 1}[r.Intn(5)]
			default:
				cur -= int32(r.Range(0, 1000))
			}
			vs = append(vs, cur)
		}
		var enc *encoding.DeltaBitPackingEncoder
		initMin := int64(math.MaxInt32)
		mode := r.Intn(3)
		switch mode {
		case 0: // constructed, never reset: minDelta starts at 0
			enc = encoding.NewDeltaBitPackingEncoder()
			initMin = 0
		case 1:
			enc = encoding.NewDeltaBitPackingEncoder()
			enc.Reset()
		default:
			enc = reusedDelta
			enc.Reset()
		}
		for _, v := range vs {
			enc.Add(v)
		}
		data := append([]byte(nil), enc.Bytes()...)
		dec := encoding.NewDeltaBitPackingDecoder(data)
		var got []int64
		for dec.HasNext() {
			got = append(got, int64(dec.Next()))
		}
		var in []int64
		for _, v := range vs {
			in = append(in, int64(v))
		}
		idx := out.Case(map[string]interface{}{"kind": "delta", "values": vs, "encoder": []string{"new-unreset", "new-reset", "reused"}[mode]}, n >= 3)
		out.Count("delta")
		out.Check(idx, fmt.Sprintf("check_delta %s %s %s %s", vh.Z(initMin), vh.ZList(in), zbytes(data), vh.ZList(got)))
	}

	// ---------- fixed offsets: encoder, decoder objects reused across tables of different widths ----------
	sharedDec := encoding.NewFixedOffsetDecoder()
	for i := 0; i < cfg.N/2; i++ {
		n := r.Range(1, 20)
		bounds := []int64{255, 256, 65535, 65536, 1<<24 - 1, 1 << 24, 1<<32 - 1}
		hi := bounds[r.Intn(len(bounds))]
		inc := r.Chance(70)
		var vs []int64
		cur := int64(0)
		for j := 0; j < n; j++ {
			if inc {
				cur += int64(r.U64() % uint64(hi/int64(n)+1))
			} else {
				cur = int64(r.U64() % uint64(hi+1))
			}
			if r.Chance(10) && (!inc || j == n-1) {
				cur = hi
			}
			if cur > hi {
				cur = hi
			}
			vs = append(vs, cur)
		}
		enc := encoding.NewFixedOffsetEncoder(false)
		for _, v := range vs {
			enc.Add(int(v))
		}
		data := enc.MarshalBinary()
		var dec *encoding.FixedOffsetDecoder
		mode := r.Intn(3)
		switch mode {
		case 0:
			dec = encoding.NewFixedOffsetDecoder()
		case 1:
			dec = encoding.GetFixedOffsetDecoder()
		default:
			dec = sharedDec
		}
		_, err := dec.Unmarshal(append(append([]byte(nil), data...), 0xEE, 0xEE))
		idx := out.Case(map[string]interface{}{"kind": "fixed-offset", "values": vs, "decoder": []string{"fresh", "pool", "shared-reused"}[mode]}, n >= 3)
		out.Count("fixed-offset")
		out.Count(fmt.Sprintf("fixed-offset:width:%d", dec.ValueWidth()))
		if err != nil {
			out.Violation(idx, "unmarshal-error", err.Error(), nil)
			continue
		}
		var gets []string
		for j := 0; j <= n; j++ {
			v, ok := dec.Get(j)
			gets = append(gets, optZ(ok, uint64(v)))
		}
		if dec.Size() != n {
			out.Violation(idx, "size", fmt.Sprintf("Size()=%d want %d", dec.Size(), n), nil)
		}
		// GetBlock on ascending offsets returns the byte ranges
		if inc && vs[n-1] < 1<<20 {
			block := make([]byte, int(vs[n-1])+1+r.Intn(10))
			{
				for j := 0; j < n; j++ {
					b, err := dec.GetBlock(j, block)
					wantEnd := len(block)
					if j+1 < n {
						wantEnd = int(vs[j+1])
					}
					if int(vs[j]) <= len(block) && (err != nil || len(b) != wantEnd-int(vs[j])) {
						out.Violation(idx, "get-block", fmt.Sprintf("GetBlock(%d) len %d err %v, want [%d,%d)", j, len(b), err, vs[j], wantEnd), nil)
					}
				}
			}
		}
		if mode == 1 {
			encoding.ReleaseFixedOffsetDecoder(dec)
		}
		out.Check(idx, fmt.Sprintf("check_fo %s %s %s 0 []", vh.ZList(vs), zbytes(data), vh.List(gets)))
	}

	// ---------- varints / zigzag ----------
	for i := 0; i < cfg.N/4; i++ {
		var v uint64
		switch r.Intn(4) {
		case 0:
			v = uint64(r.Intn(300))
		case 1:
			v = uint64(1)<<uint(r.Intn(64)) - uint64(r.Intn(2))
		case 2:
			v = r.U64()
		default:
			v = math.MaxUint64 - uint64(r.Intn(3))
		}
		var buf bytes.Buffer
		sw := stream.NewBufferWriter(&buf)
		signed := r.Bool()
		idx := out.Case(map[string]interface{}{"kind": "varint", "v": fmt.Sprintf("%d", v), "signed": signed}, v >= 128)
		out.Count("varint")
		if signed {
			sw.PutVarint64(int64(v))
			data, _ := sw.Bytes()
			rd := stream.NewReader(data)
			got := rd.ReadVarint64()
			if encoding.ZigZagDecode(encoding.ZigZagEncode(int64(v))) != int64(v) {
				out.Violation(idx, "zigzag", fmt.Sprintf("%d", int64(v)), nil)
			}
			out.Check(idx, fmt.Sprintf("check_varint true %s %s %s", vh.Z(int64(v)), zbytes(data), vh.Z(got)))
		} else {
			sw.PutUvarint64(v)
			data, _ := sw.Bytes()
			rd := stream.NewReader(data)
			got := rd.ReadUvarint64()
			x, n := binary.Uvarint(data)
			if x != v || n != len(data) {
				out.Violation(idx, "uvarint-std", fmt.Sprintf("%d", v), nil)
			}
			out.Check(idx, fmt.Sprintf("check_varint false %s %s %s", vh.ZU(v), zbytes(data), vh.ZU(got)))
		}
	}

	// ---------- bitmap and snappy: thin wrappers over libraries, round-tripped directly ----------
	for i := 0; i < cfg.N/8; i++ {
		bm := roaring.New()
		switch r.Intn(3) {
		case 0:
			bm.AddRange(uint64(r.Intn(70000)), uint64(70000+r.Intn(70000)))
		case 1:
			for j := 0; j < r.Range(0, 3000); j++ {
				bm.Add(uint32(r.U64() % 200000))
			}
		default:
			for j := 0; j < r.Range(0, 50); j++ {
				bm.Add(uint32(r.U64()))
			}
		}
		if r.Bool() {
			bm.RunOptimize()
		}
		data, err := encoding.BitmapMarshal(bm)
		idx := out.Case(map[string]interface{}{"kind": "bitmap", "cardinality": bm.GetCardinality()}, bm.GetCardinality() > 2)
		out.Count("bitmap")
		if err != nil {
			out.Violation(idx, "bitmap-marshal", err.Error(), nil)
			continue
		}
		back := roaring.New()
		if _, err := encoding.BitmapUnmarshal(back, data); err != nil || !back.Equals(bm) {
			out.Violation(idx, "bitmap-roundtrip", fmt.Sprintf("err %v", err), nil)
		}
		out.Check(idx, "(0%nat, 0%nat)")
	}
	w := compress.NewSnappyWriter()
	rd := compress.NewSnappyReader()
	for i := 0; i < cfg.N/8; i++ {
		n := []int{0, 1, 10, 1000, 70000, 1 << 20}[r.Intn(6)]
		if cfg.Tier != "thorough" && n > 70000 {
			n = 70000
		}
		src := make([]byte, n)
		for j := range src {
			if r.Chance(70) {
				src[j] = byte(j % 7)
			} else {
				src[j] = byte(r.U64())
			}
		}
		if r.Chance(30) {
			w = compress.NewSnappyWriter()
			rd = compress.NewSnappyReader()
		}
		_, _ = w.Write(src[:len(src)/2])
		_, _ = w.Write(src[len(src)/2:])
		_ = w.Close()
		data := w.Bytes()
		cp := append([]byte(nil), data...)
		damaged := ""
		if r.Chance(30) && len(cp) > 4 {
			// the reused reader is first handed a damaged chunk (a torn tail, a flipped byte, or bytes that were never a
			// chunk): whatever it answers to that, the intact chunk after it decodes to what was written
			bad := append([]byte(nil), cp...)
			switch r.Intn(3) {
			case 0:
				bad = bad[:len(bad)-1-r.Intn(3)]
				damaged = "torn"
			case 1:
				bad[r.Intn(len(bad))] ^= 0x5a
				damaged = "flipped"
			default:
				bad = []byte("not a snappy chunk at all")
				damaged = "garbage"
			}
			_, _ = rd.Uncompress(bad)
			out.Count("snappy-damaged-chunk-first")
		}
		got, err := rd.Uncompress(cp)
		idx := out.Case(map[string]interface{}{"kind": "snappy", "len": n, "seq": i, "damaged_chunk_first": damaged}, n > 1)
		out.Count("snappy")
		if err != nil || !bytes.Equal(got, src) {
			out.Violation(idx, "snappy-roundtrip", fmt.Sprintf("len %d err %v", n, err), nil)
		}
		out.Check(idx, "(0%nat, 0%nat)")
	}
	// chunks of one reused writer that are held (queued for sending, as in replica/channel_family.go) while the writer
	// compresses the next ones; decoded only after all of them were produced
	for i := 0; i < cfg.N/20+2; i++ {
		hw := compress.NewSnappyWriter()
		k := r.Range(2, 5)
		var srcs, held [][]byte
		size := []int{40, 300, 600, 5000}[r.Intn(4)]
		for j := 0; j < k; j++ {
			n := size
			switch r.Intn(3) {
			case 0: // shrinking chunks
				n = size - j*size/(k+1)
			case 1:
				n = size + r.Intn(size)
			}
			src := make([]byte, n)
			for x := range src {
				if r.Chance(60) {
					src[x] = byte('a' + (x+j)%5)
				} else {
					src[x] = byte(r.U64())
				}
			}
			_, _ = hw.Write(src)
			_ = hw.Close()
			srcs = append(srcs, src)
			held = append(held, hw.Bytes()) // no copy: the chunk handed out belongs to the caller
		}
		idx := out.Case(map[string]interface{}{"kind": "snappy-held-chunks", "chunks": k, "size": size, "seq": i}, true)
		out.Count("snappy-held-chunks")
		hr := compress.NewSnappyReader()
		for j := range held {
			got, err := hr.Uncompress(held[j])
			if err != nil || !bytes.Equal(got, srcs[j]) {
				out.Violation(idx, "snappy-held-chunk", fmt.Sprintf("chunk %d of %d (%d bytes) does not decode to what was written into it: err %v", j, k, len(srcs[j]), err), nil)
				break
			}
		}
		out.Check(idx, "(0%nat, 0%nat)")
	}
	out.Finish()
}
