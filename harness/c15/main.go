// C15 harness: real table files (builder Add / stream writer), real readers and merged iterators,
// Snapshot.Load over a real family with several files.
package main

import (
	"bytes"
	"encoding/binary"
	"fmt"
	"os"
	"path/filepath"
	"sort"
	"strings"
	"time"

	"github.com/lindb/lindb/kv"
	"github.com/lindb/lindb/kv/table"

	"lindbverif/vh"
)

type opJ struct {
	Kind   string   `json:"k"` // add, stream
	Key    uint32   `json:"key"`
	Chunks [][]byte `json:"chunks"`
}

func (o opJ) value() []byte { return bytes.Join(o.Chunks, nil) }
func (o opJ) coq(x *ranker) string {
	if o.Kind == "add" {
		return fmt.Sprintf("OAdd %d %s", x.r(o.Key), vh.Bytes(o.value()))
	}
	var cs []string
	for _, c := range o.Chunks {
		cs = append(cs, vh.Bytes(c))
	}
	return fmt.Sprintf("OStream %d %s", x.r(o.Key), vh.List(cs))
}

func genValue(r *vh.Rand, max int) []byte {
	n := r.Intn(max + 1)
	if r.Chance(15) {
		n = 0
	}
	b := make([]byte, n)
	for i := range b {
		b[i] = byte(r.U64())
	}
	return b
}

// keys: dense runs, sparse, around multiples of 65536, with out-of-order injections
func genOps(r *vh.Rand, maxVal int) []opJ {
	n := r.Range(1, 25)
	var ops []opJ
	cur := uint32(0)
	switch r.Intn(4) {
	case 0:
		cur = 0
	case 1:
		cur = uint32(65536*r.Range(1, 3) - r.Range(1, 4))
	case 2:
		cur = uint32(r.U64() % (1 << 31))
	default:
		cur = uint32(r.Intn(1000))
	}
	kind := r.Intn(3)
	for i := 0; i < n; i++ {
		k := cur
		if r.Chance(18) { // out of order: equal to or below the last key
			back := uint32(r.Intn(3))
			if back <= cur {
				k = cur - back
			}
			if i > 0 && r.Bool() {
				k = ops[r.Intn(len(ops))].Key
			}
		} else {
			switch kind {
			case 0:
				cur++
			case 1:
				cur += uint32(r.Range(1, 70000))
			default:
				cur += uint32(r.Range(1, 5))
			}
			k = cur
		}
		if r.Chance(35) {
			var chunks [][]byte
			for j := 0; j < r.Range(0, 3); j++ {
				chunks = append(chunks, genValue(r, maxVal/2))
			}
			ops = append(ops, opJ{"stream", k, chunks})
		} else {
			ops = append(ops, opJ{"add", k, [][]byte{genValue(r, maxVal)}})
		}
	}
	return ops
}

// keys are rendered as their rank among all keys of the case (the model only uses order and equality of keys;
// unary nat numerals of real key values would be unusable)
type ranker struct{ keys []uint32 }

func newRanker(ks ...uint32) *ranker { return &ranker{append([]uint32(nil), ks...)} }
func (x *ranker) add(ks ...uint32)   { x.keys = append(x.keys, ks...) }
func (x *ranker) done() {
	sort.Slice(x.keys, func(i, j int) bool { return x.keys[i] < x.keys[j] })
	j := 0
	for i, k := range x.keys {
		if i == 0 || k != x.keys[i-1] {
			x.keys[j] = k
			j++
		}
	}
	x.keys = x.keys[:j]
}
func (x *ranker) r(k uint32) int {
	i := sort.Search(len(x.keys), func(i int) bool { return x.keys[i] >= k })
	if i >= len(x.keys) || x.keys[i] != k {
		panic(fmt.Sprintf("key %d not ranked", k))
	}
	return i
}

type entry struct {
	K uint32
	V []byte
}

func specEntries(ops []opJ) []entry {
	var out []entry
	for _, o := range ops {
		if len(out) == 0 || o.Key > out[len(out)-1].K {
			out = append(out, entry{o.Key, o.value()})
		}
	}
	return out
}

func buildTable(dir string, fn int64, ops []opJ) (flags []bool, b table.Builder, path string, err error) {
	path = filepath.Join(dir, fmt.Sprintf("%06d.sst", fn))
	b, err = table.NewStoreBuilder(table.FileNumber(fn), path)
	if err != nil {
		return
	}
	sw := b.StreamWriter()
	for _, o := range ops {
		before := b.Count()
		if o.Kind == "add" {
			v := append([]byte(nil), o.value()...)
			e := b.Add(o.Key, v)
			for i := range v { // the caller's buffer is reused after the call
				v[i] = '#'
			}
			if e != nil {
				err = e
				return
			}
		} else {
			sw.Prepare(o.Key)
			for _, c := range o.Chunks {
				cc := append([]byte(nil), c...)
				_, e := sw.Write(cc)
				for i := range cc {
					cc[i] = '#'
				}
				if e != nil {
					err = e
					return
				}
			}
			if e := sw.Commit(); e != nil {
				err = e
				return
			}
		}
		flags = append(flags, b.Count() > before)
	}
	return
}

func entsCoq(x *ranker, es []entry) string {
	var xs []string
	for _, e := range es {
		xs = append(xs, vh.Pair(vh.Nat(x.r(e.K)), vh.Bytes(e.V)))
	}
	return vh.List(xs)
}

type nopMerger struct{ f kv.Flusher }

func (m *nopMerger) Init(map[string]interface{}) {}
func (m *nopMerger) Merge(key uint32, values [][]byte) error {
	return m.f.Add(key, bytes.Join(values, nil))
}

func main() {
	cfg := vh.ParseFlags()
	r := vh.NewRand(cfg.Seed)
	out := vh.NewOut(cfg.Out, "From Coq Require Import List Arith Bool ZArith.\nImport ListNotations.\nFrom LinDBV.C15 Require Import Model Check.\n")
	out.ShardSize = 120
	root, err := os.MkdirTemp("", "verif-c15-")
	if err != nil {
		panic(err)
	}
	defer os.RemoveAll(root)
	fam := filepath.Join(root, "t")
	_ = os.MkdirAll(fam, 0o755)
	cache := table.NewCache(root, time.Hour)
	defer cache.Close()
	fileNo := int64(1)

	// ---------- single tables ----------
	for i := 0; i < cfg.N; i++ {
		ops := genOps(r, 24)
		fileNo++
		flags, b, path, err := buildTable(fam, fileNo, ops)
		spec := specEntries(ops)
		rejected := 0
		for _, f := range flags {
			if !f {
				rejected++
			}
		}
		crosses := len(spec) >= 3 && spec[0].K/65536 != spec[len(spec)-1].K/65536
		idx := out.Case(map[string]interface{}{"kind": "table", "ops": ops}, crosses || rejected >= 1)
		out.Count("table")
		if rejected > 0 {
			out.Count("table:with-rejected-key")
		}
		if err != nil {
			out.Violation(idx, "build-error", err.Error(), nil)
			continue
		}
		minK, maxK, cnt := b.MinKey(), b.MaxKey(), b.Count()
		if err := b.Close(); err != nil {
			if len(spec) == 0 {
				continue
			}
			out.Violation(idx, "close-error", err.Error(), nil)
			continue
		}
		data, _ := os.ReadFile(path)
		if len(data) < 17 {
			out.Violation(idx, "short-file", fmt.Sprintf("%d bytes", len(data)), nil)
			continue
		}
		foot := data[len(data)-17:]
		posOff := int(binary.LittleEndian.Uint32(foot[0:4]))
		posKeys := int(binary.LittleEndian.Uint32(foot[4:8]))
		if posOff > posKeys || posKeys > len(data)-17 {
			out.Violation(idx, "bad-footer", fmt.Sprintf("%d %d %d", posOff, posKeys, len(data)), nil)
			continue
		}
		rd, err := cache.GetReader("t", filepath.Base(path))
		if err != nil {
			out.Violation(idx, "table-cannot-be-opened", err.Error(), nil)
			continue
		}
		// probes: every spec key, neighbours, rejected keys, far keys
		probe := map[uint32]bool{0: true, 65535: true, 65536: true}
		for _, o := range ops {
			probe[o.Key] = true
			probe[o.Key+1] = true
			if o.Key > 0 {
				probe[o.Key-1] = true
			}
		}
		var pk []int
		for k := range probe {
			pk = append(pk, int(k))
		}
		sort.Ints(pk)
		x := newRanker(minK, maxK)
		for _, k := range pk {
			x.add(uint32(k))
		}
		var lookups []string
		var iter []entry
		it := rd.Iterator()
		for it.HasNext() {
			k := it.Key()
			iter = append(iter, entry{k, append([]byte(nil), it.Value()...)})
			x.add(k)
			if len(iter) > len(ops)+2 {
				break
			}
		}
		x.done()
		for _, k := range pk {
			v, err := rd.Get(uint32(k))
			if err != nil {
				lookups = append(lookups, vh.Pair(vh.Nat(x.r(uint32(k))), "None"))
			} else {
				lookups = append(lookups, vh.Pair(vh.Nat(x.r(uint32(k))), "(Some "+vh.Bytes(v)+")"))
			}
		}
		var blk []string
		for _, x := range data[posOff:posKeys] {
			blk = append(blk, fmt.Sprintf("%d%%Z", x))
		}
		var fl, opsC []string
		for _, f := range flags {
			fl = append(fl, vh.Bool(f))
		}
		for _, o := range ops {
			opsC = append(opsC, o.coq(x))
		}
		out.Check(idx, fmt.Sprintf("check_table %s\n {| t_flags := %s; t_min := %d; t_max := %d; t_count := %d; t_pos_offsets := %d; t_offsets_block := %s; t_lookups := %s; t_iter := %s |}",
			vh.List(opsC), vh.List(fl), x.r(minK), x.r(maxK), cnt, posOff, vh.List(blk), vh.List(lookups), entsCoq(x, iter)))
	}

	// ---------- big values: checked directly ----------
	nBig := 3
	maxBig := 300 * 1024
	if cfg.Tier == "thorough" {
		nBig, maxBig = 12, 2*1024*1024
	}
	for i := 0; i < nBig; i++ {
		var ops []opJ
		for j := 0; j < 6; j++ {
			v := genValue(r, maxBig)
			if j%2 == 0 {
				ops = append(ops, opJ{"add", uint32(65530 + j*3), [][]byte{v}})
			} else {
				ops = append(ops, opJ{"stream", uint32(65530 + j*3), [][]byte{v[:len(v)/2], v[len(v)/2:]}})
			}
		}
		fileNo++
		_, b, path, err := buildTable(fam, fileNo, ops)
		idx := out.Case(map[string]interface{}{"kind": "big-values", "n": i, "max": maxBig}, true)
		out.Count("big-values")
		if err != nil || b.Close() != nil {
			out.Violation(idx, "build-error", fmt.Sprint(err), nil)
			continue
		}
		rd, err := cache.GetReader("t", filepath.Base(path))
		if err != nil {
			out.Violation(idx, "table-cannot-be-opened", err.Error(), nil)
			continue
		}
		for _, o := range ops {
			v, err := rd.Get(o.Key)
			if err != nil || !bytes.Equal(v, o.value()) {
				out.Violation(idx, "big-value-changed", fmt.Sprintf("key %d len %d got %d err %v", o.Key, len(o.value()), len(v), err), nil)
			}
		}
		out.Check(idx, "(0%nat, 0%nat)")
	}

	// ---------- merged iterator over real tables ----------
	for i := 0; i < cfg.N/2; i++ {
		k := r.Range(1, 8)
		var its []table.Iterator
		var itsCoq []string
		idr := newRanker()
		for q := uint32(0); q < 400; q++ {
			idr.add(q)
		}
		idr.done()
		shared := 0
		seen := map[uint32]int{}
		pool := uint32(r.Range(1, 40))
		for j := 0; j < k; j++ {
			var ops []opJ
			cur := uint32(r.Intn(int(pool)))
			for x := 0; x < r.Range(0, 12); x++ {
				cur += uint32(r.Range(1, 6))
				ops = append(ops, opJ{"add", cur, [][]byte{append([]byte{byte(j)}, genValue(r, 4)...)}})
			}
			spec := specEntries(ops)
			if len(spec) == 0 {
				itsCoq = append(itsCoq, "[]")
				continue // an empty table cannot be built (ErrEmptyKeys): an empty input is simply absent
			}
			fileNo++
			_, b, path, err := buildTable(fam, fileNo, ops)
			if err != nil || b.Close() != nil {
				continue
			}
			rd, err := cache.GetReader("t", filepath.Base(path))
			if err != nil {
				continue
			}
			its = append(its, rd.Iterator())
			itsCoq = append(itsCoq, entsCoq(idr, spec))
			for _, e := range spec {
				seen[e.K]++
				if seen[e.K] == 2 {
					shared++
				}
			}
		}
		// empty inputs were skipped on the Go side: drop them from the model input as well
		var nonEmpty []string
		for _, s := range itsCoq {
			if s != "[]" {
				nonEmpty = append(nonEmpty, s)
			}
		}
		m := table.NewMergedIterator(its)
		var outE []entry
		for m.HasNext() {
			outE = append(outE, entry{m.Key(), append([]byte(nil), m.Value()...)})
			if len(outE) > 200 {
				break
			}
		}
		idx := out.Case(map[string]interface{}{"kind": "merge", "inputs": nonEmpty}, len(its) >= 2 && shared >= 1)
		out.Count("merge")
		out.Count(fmt.Sprintf("merge:inputs:%d", len(its)))
		out.Check(idx, fmt.Sprintf("check_merge %s\n %s", vh.List(nonEmpty), entsCoq(idr, outE)))
	}

	// ---------- Load over a version with several files ----------
	kv.RegisterMerger("verif-concat", func(f kv.Flusher) (kv.Merger, error) { return &nopMerger{f}, nil })
	for i := 0; i < cfg.N/8+1; i++ {
		storePath := filepath.Join(root, fmt.Sprintf("store%d", i))
		store, err := kv.GetStoreManager().CreateStore(storePath, kv.DefaultStoreOption())
		if err != nil {
			out.Violation(0, "create-store", err.Error(), nil)
			continue
		}
		family, err := store.CreateFamily("f", kv.FamilyOption{Merger: "verif-concat", CompactThreshold: 100, MaxFileSize: 1 << 30})
		if err != nil {
			out.Violation(0, "create-family", err.Error(), nil)
			continue
		}
		nf := r.Range(1, 5)
		idr := newRanker()
		for q := uint32(0); q < 400; q++ {
			idr.add(q)
		}
		idr.done()
		var filesCoq []string
		var all [][]entry
		for j := 0; j < nf; j++ {
			var ops []opJ
			cur := uint32(r.Intn(20))
			for x := 0; x < r.Range(1, 10); x++ {
				cur += uint32(r.Range(1, 5))
				ops = append(ops, opJ{"add", cur, [][]byte{{byte(j), byte(x)}}})
			}
			fl := family.NewFlusher()
			for _, o := range ops {
				_ = fl.Add(o.Key, o.value())
			}
			if err := fl.Commit(); err != nil {
				out.Violation(0, "flush-commit", err.Error(), nil)
			}
			fl.Release()
			spec := specEntries(ops)
			all = append(all, spec)
			filesCoq = append(filesCoq, fmt.Sprintf("{| f_min := %d; f_max := %d; f_ents := %s |}", spec[0].K, spec[len(spec)-1].K, entsCoq(idr, spec)))
		}
		snap := family.GetSnapshot()
		for _, k := range []uint32{uint32(r.Intn(45)), uint32(r.Intn(45)), all[0][0].K, all[nf-1][len(all[nf-1])-1].K} {
			var vals []string
			holders := 0
			for _, f := range all {
				for _, e := range f {
					if e.K == k {
						holders++
					}
				}
			}
			err := snap.Load(k, func(v []byte) error {
				vals = append(vals, vh.Bytes(append([]byte(nil), v...)))
				return nil
			})
			idx := out.Case(map[string]interface{}{"kind": "load", "files": filesCoq, "key": k}, holders >= 2)
			out.Count("load")
			if err != nil {
				out.Violation(idx, "load-error", err.Error(), nil)
			}
			out.Check(idx, fmt.Sprintf("check_load %s %d %s", vh.List(filesCoq), k, vh.List(vals)))
		}
		snap.Close()
		_ = kv.GetStoreManager().CloseStore(storePath)
	}
	// ---------- Load over a version with files in two levels: rounds of flushes into a key window followed by a compaction;
	// a later compaction's output can enclose the key range of a level-1 file it did not take as input. The merger
	// concatenates the values of a key, every flushed value is two bytes: what Load returns for a key, cut into pairs,
	// must be the values flushed for it, each once ----------
	for i := 0; i < cfg.N/10+2; i++ {
		storePath := filepath.Join(root, fmt.Sprintf("lv%d", i))
		store, err := kv.GetStoreManager().CreateStore(storePath, kv.DefaultStoreOption())
		if err != nil {
			out.Violation(0, "create-store", err.Error(), nil)
			continue
		}
		family, err := store.CreateFamily("f", kv.FamilyOption{Merger: "verif-concat", CompactThreshold: 2, MaxFileSize: 1 << 30})
		if err != nil {
			out.Violation(0, "create-family", err.Error(), nil)
			continue
		}
		flushed := map[uint32][]string{}
		type roundJ struct {
			Files [][]uint32 `json:"files"`
		}
		var rounds []roundJ
		serial := 0
		windows := [][2]int{{100, 200}, {1, 1001}, {150, 160}, {5000, 5001}, {120, 130}, {0, 5002}}
		perm := r.Perm(len(windows))
		nr := r.Range(2, 4)
		if i == 0 {
			perm, nr = []int{0, 1, 2, 3, 4, 5}, 2 // [100..200] first, then an output [1..1001] that encloses it
		}
		for rd := 0; rd < nr; rd++ {
			w := windows[perm[rd]]
			var rj roundJ
			for f := 0; f < 2; f++ {
				keys := map[uint32]bool{}
				if f == 0 {
					keys[uint32(w[0])] = true
				} else {
					keys[uint32(w[1])] = true
				}
				if i > 0 || rd > 0 { // the directed case keeps the first window's middle free of the second round's keys
					for x := r.Intn(3); x > 0; x-- {
						keys[uint32(r.Range(w[0], w[1]))] = true
					}
				} else if f == 0 {
					keys[150] = true
				}
				var ks []uint32
				for k := range keys {
					ks = append(ks, k)
				}
				sort.Slice(ks, func(a, b int) bool { return ks[a] < ks[b] })
				fl := family.NewFlusher()
				for _, k := range ks {
					serial++
					v := []byte{byte(serial >> 8), byte(serial)}
					flushed[k] = append(flushed[k], string(v))
					_ = fl.Add(k, v)
				}
				if err := fl.Commit(); err != nil {
					out.Violation(0, "flush-commit", err.Error(), nil)
				}
				fl.Release()
				rj.Files = append(rj.Files, ks)
			}
			family.Compact()
			time.Sleep(2 * time.Millisecond)
			kv.VerifWaitBackground(family)
			rounds = append(rounds, rj)
		}
		tmp := family.GetSnapshot()
		l1 := tmp.GetCurrent().NumberOfFilesInLevel(1)
		tmp.Close()
		idx := out.Case(map[string]interface{}{"kind": "load-two-levels", "rounds": rounds, "level1_files": l1}, l1 >= 2)
		out.Count("load-two-levels")
		out.Count(fmt.Sprintf("load-two-levels:level1-files:%d", l1))
		var keys []uint32
		for k := range flushed {
			keys = append(keys, k)
		}
		sort.Slice(keys, func(a, b int) bool { return keys[a] < keys[b] })
		bad := ""
		for rep := 0; rep < 12 && bad == ""; rep++ { // the files of a level are visited in map order: several fresh snapshots
			snap := family.GetSnapshot()
			for _, k := range keys {
				var got []string
				if err := snap.Load(k, func(v []byte) error {
					for p := 0; p+1 < len(v); p += 2 {
						got = append(got, string(v[p:p+2]))
					}
					return nil
				}); err != nil {
					bad = fmt.Sprintf("Load(%d): %v", k, err)
					break
				}
				want := append([]string(nil), flushed[k]...)
				sort.Strings(got)
				sort.Strings(want)
				if strings.Join(got, ",") != strings.Join(want, ",") {
					bad = fmt.Sprintf("Load(%d) returned %d of the %d values flushed for the key (fresh snapshot %d)", k, len(got), len(want), rep)
					break
				}
			}
			snap.Close()
		}
		if bad != "" {
			out.Violation(idx, "load-two-levels", bad, nil)
		}
		out.Check(idx, "(0%nat, 0%nat)")
		_ = kv.GetStoreManager().CloseStore(storePath)
	}
	out.Finish()
}
