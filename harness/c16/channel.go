package main

import (
	"lindbverif/vh"
	"strings"

	"bytes"
	"context"
	"encoding/json"
	"errors"
	"fmt"
	"io"
	"net/http"
	"sort"
	"sync"
	"time"

	"github.com/cespare/xxhash/v2"
	"github.com/lindb/common/pkg/ltoml"
	protoMetricsV1 "github.com/lindb/common/proto/gen/v1/linmetrics"
	jump "github.com/lithammer/go-jump-consistent-hash"
	"google.golang.org/grpc"
	"google.golang.org/grpc/metadata"

	"github.com/lindb/lindb/config"
	"github.com/lindb/lindb/constants"
	"github.com/lindb/lindb/coordinator/broker"
	ingestProto "github.com/lindb/lindb/ingestion/proto"
	"github.com/lindb/lindb/models"
	"github.com/lindb/lindb/pkg/compress"
	"github.com/lindb/lindb/pkg/option"
	"github.com/lindb/lindb/pkg/timeutil"
	protoCommonV1 "github.com/lindb/lindb/proto/gen/v1/common"
	protoReplicaV1 "github.com/lindb/lindb/proto/gen/v1/replica"
	protoWriteV1 "github.com/lindb/lindb/proto/gen/v1/write"
	"github.com/lindb/lindb/replica"
	"github.com/lindb/lindb/series/metric"
)

const (
	chDatabase    = "db"
	chNumOfShards = 2
)

// ---- fake storage side ----

type chRecord struct {
	shard  models.ShardID
	family int64
	data   []byte
}

type chFactory struct {
	mu          sync.Mutex
	up          bool
	failedConns int
	records     []chRecord
}

func (f *chFactory) LogicNode() models.Node { return &models.StatelessNode{HostIP: "broker"} }

func (f *chFactory) CreateTaskClient(models.Node) (protoCommonV1.TaskService_HandleClient, error) {
	return nil, errors.New("not supported")
}

func (f *chFactory) CreateReplicaServiceClient(models.Node) (protoReplicaV1.ReplicaServiceClient, error) {
	return nil, errors.New("not supported")
}

func (f *chFactory) CreateWriteServiceClient(models.Node) (protoWriteV1.WriteServiceClient, error) {
	f.mu.Lock()
	defer f.mu.Unlock()
	if !f.up {
		f.failedConns++
		return nil, errors.New("storage leader unreachable")
	}
	return &chWriteService{f: f}, nil
}

func (f *chFactory) setUp(up bool) {
	f.mu.Lock()
	f.up = up
	f.mu.Unlock()
}

func (f *chFactory) counters() (failedConns, records int) {
	f.mu.Lock()
	defer f.mu.Unlock()
	return f.failedConns, len(f.records)
}

type chWriteService struct{ f *chFactory }

func (s *chWriteService) Write(ctx context.Context, _ ...grpc.CallOption) (protoWriteV1.WriteService_WriteClient, error) {
	md, _ := metadata.FromOutgoingContext(ctx)
	vals := md.Get(constants.RPCMetaKeyFamilyState)
	if len(vals) != 1 {
		return nil, errors.New("no family state")
	}
	var state models.FamilyState
	if err := json.Unmarshal([]byte(vals[0]), &state); err != nil {
		return nil, err
	}
	return &chStream{ctx: ctx, f: s.f, shard: state.Shard.ID, family: state.FamilyTime}, nil
}

type chStream struct {
	grpc.ClientStream
	ctx    context.Context
	f      *chFactory
	shard  models.ShardID
	family int64
}

// Send keeps what is on the wire at the moment of sending(grpc marshals the message inside Send).
func (s *chStream) Send(req *protoWriteV1.WriteRequest) error {
	s.f.mu.Lock()
	defer s.f.mu.Unlock()
	s.f.records = append(s.f.records, chRecord{shard: s.shard, family: s.family, data: append([]byte(nil), req.Record...)})
	return nil
}

func (s *chStream) Recv() (*protoWriteV1.WriteResponse, error) {
	<-s.ctx.Done()
	return nil, io.EOF
}

func (s *chStream) Context() context.Context { return s.ctx }

func (s *chStream) CloseSend() error { return nil }

// chStateMgr only hands the shard state callback over.
type chStateMgr struct {
	broker.StateManager
	cb func(models.Database, map[models.ShardID]models.ShardState, map[models.NodeID]models.StatefulNode)
}

func (m *chStateMgr) WatchShardStateChangeEvent(fn func(databaseCfg models.Database,
	shards map[models.ShardID]models.ShardState,
	liveNodes map[models.NodeID]models.StatefulNode,
)) {
	m.cb = fn
}

// ---- the rows of the scenario ----

type chRow struct {
	host   string
	value  float64
	ts     int64
	shard  int
	family int64
}

func (r chRow) key() string { return fmt.Sprintf("cpu|host=%s|%d|%v", r.host, r.ts, r.value) }

// chExpectedShard is the routing rule: jump hash of the hash over the sorted "key=value" tags.
func chExpectedShard(host string) int {
	return int(jump.Hash(xxhash.Sum64String("host="+host), chNumOfShards))
}

func chParseBatch(rows []chRow) *metric.BrokerBatchRows {
	var ml protoMetricsV1.MetricList
	for _, r := range rows {
		ml.Metrics = append(ml.Metrics, &protoMetricsV1.Metric{
			Name:      "cpu",
			Timestamp: r.ts,
			Tags:      []*protoMetricsV1.KeyValue{{Key: "host", Value: r.host}},
			SimpleFields: []*protoMetricsV1.SimpleField{
				{Name: "load", Type: protoMetricsV1.SimpleFieldType_LAST, Value: r.value},
			},
		})
	}
	data, err := ml.Marshal()
	if err != nil {
		panic(err)
	}
	req, err := http.NewRequest(http.MethodPut, "http://broker/api/v1/write?db=db", bytes.NewReader(data))
	if err != nil {
		panic(err)
	}
	batch, err := ingestProto.Parse(req, nil, "ns", models.NewDefaultLimits())
	if err != nil {
		panic(err)
	}
	if batch.Len() != len(rows) {
		panic(fmt.Errorf("parsed %d rows of %d", batch.Len(), len(rows)))
	}
	return batch
}

func chWaitFor(cond func() bool) bool {
	deadline := time.Now().Add(20 * time.Second)
	for time.Now().Before(deadline) {
		if cond() {
			return true
		}
		time.Sleep(5 * time.Millisecond)
	}
	return false
}

// channelDelivery: rows accepted by ChannelManager.Write are delivered exactly once, to the stream of their shard and
// family - also when the shard's leader is unreachable for a while and the family channel keeps compressed blocks for a
// retry.  The real path from ingestion/proto.Parse through replica.NewChannelManager(...).Write, the database, shard and
// family channels (chunk, snappy, retry buffers) to rpc.NewWriteStream; the storage node is a recording stream factory.
// Judged directly on what arrived.
var chOnce sync.Once

func channelDelivery(out *vh.Out, r *vh.Rand, rounds int) {
	chOnce.Do(func() {
		// a block is full with every row: each row becomes one compressed block of its family channel
		config.SetGlobalBrokerConfig(&config.BrokerBase{Write: config.Write{
			BatchTimeout:   ltoml.Duration(time.Hour),
			BatchBlockSize: ltoml.Size(1),
			GCTaskInterval: ltoml.Duration(time.Hour),
		}})
	})
	for round := 0; round < rounds; round++ {
		outage := round%2 == 0
		var interval, retention timeutil.Interval
		_ = interval.ValueOf("10s")
		_ = retention.ValueOf("30d")
		dbName := fmt.Sprintf("%s%d", chDatabase, round)
		dbCfg := models.Database{Name: dbName, NumOfShard: chNumOfShards, ReplicaFactor: 1,
			Option: &option.DatabaseOption{Intervals: option.Intervals{{Interval: interval, Retention: retention}}, Ahead: "1h", Behind: "1h"}}
		shards := map[models.ShardID]models.ShardState{}
		for i := 0; i < chNumOfShards; i++ {
			shards[models.ShardID(i)] = models.ShardState{ID: models.ShardID(i), State: models.OnlineShard, Leader: 1,
				Replica: models.Replica{Replicas: []models.NodeID{1}}}
		}
		liveNodes := map[models.NodeID]models.StatefulNode{1: {ID: 1, StatelessNode: models.StatelessNode{HostIP: "127.0.0.1", GRPCPort: 2891}}}
		fct := &chFactory{}
		stateMgr := &chStateMgr{}
		ctx, cancel := context.WithCancel(context.Background())
		cm := replica.NewChannelManager(ctx, fct, stateMgr)
		stateMgr.cb(dbCfg, shards, liveNodes)

		now := time.Now().UnixMilli()
		calc := interval.Calculator()
		family := calc.CalcFamilyTime(now)
		ts := now
		if ts-family < 10_000 {
			ts = family + 10_000
		}
		mk := func(i int) chRow {
			host := fmt.Sprintf("host-%03d", i)
			return chRow{host: host, value: float64(1000 + i), ts: ts - int64(i), shard: chExpectedShard(host), family: family}
		}
		var batchA, batchB []chRow
		for i, n := 0, r.Range(4, 9); i < n; i++ {
			batchA = append(batchA, mk(i))
		}
		covered := map[int]bool{}
		for i := 100; len(covered) < chNumOfShards; i++ {
			row := mk(i)
			if !covered[row.shard] {
				covered[row.shard] = true
				batchB = append(batchB, row)
			}
		}
		sent := append(append([]chRow{}, batchA...), batchB...)
		problem := ""
		write := func(rows []chRow) {
			batch := chParseBatch(rows)
			if err := cm.Write(ctx, dbName, batch); err != nil && problem == "" {
				problem = "ChannelManager.Write: " + err.Error()
			}
		}
		fct.setUp(!outage)
		write(batchA)
		if outage {
			if !chWaitFor(func() bool { failed, _ := fct.counters(); return failed >= len(batchA) }) && problem == "" {
				problem = "the sends of the outage phase never failed"
			}
		}
		fct.setUp(true)
		write(batchB)
		arrived := chWaitFor(func() bool { _, n := fct.counters(); return n >= len(sent) })
		time.Sleep(200 * time.Millisecond) // a possible surplus block
		fct.mu.Lock()
		records := append([]chRecord(nil), fct.records...)
		fct.mu.Unlock()
		cancel()

		var bad []string
		delivered := map[string]int{}
		reader := compress.NewSnappyReader()
		for idx, rec := range records {
			func() {
				defer func() {
					if p := recover(); p != nil {
						bad = append(bad, fmt.Sprintf("block %d (shard %d) cannot be decoded: %v", idx, rec.shard, p))
					}
				}()
				block, err := reader.Uncompress(rec.data)
				if err != nil {
					bad = append(bad, fmt.Sprintf("block %d (shard %d) cannot be decompressed: %v", idx, rec.shard, err))
					return
				}
				rows := metric.NewStorageBatchRows()
				rows.UnmarshalRows(block)
				for _, row := range rows.Rows() {
					host := ""
					kvItr := row.NewKeyValueIterator()
					for kvItr.HasNext() {
						if string(kvItr.NextKey()) == "host" {
							host = string(kvItr.NextValue())
						}
					}
					value := 0.0
					fItr := row.NewSimpleFieldIterator()
					for fItr.HasNext() {
						value = fItr.NextValue()
					}
					got := chRow{host: host, value: value, ts: row.Timestamp()}
					delivered[got.key()]++
					if int(rec.shard) != chExpectedShard(host) || rec.family != calc.CalcFamilyTime(row.Timestamp()) {
						bad = append(bad, fmt.Sprintf("row %s delivered to shard %d family %d", got.key(), rec.shard, rec.family))
					}
				}
			}()
		}
		sort.Slice(sent, func(i, j int) bool { return sent[i].host < sent[j].host })
		for _, row := range sent {
			if n := delivered[row.key()]; n != 1 && (arrived || n > 1) {
				bad = append(bad, fmt.Sprintf("accepted row %s (shard %d) delivered %d times", row.key(), row.shard, n))
			}
			delete(delivered, row.key())
		}
		for k, n := range delivered {
			bad = append(bad, fmt.Sprintf("row %s delivered %d times was never sent", k, n))
		}
		idx := out.Case(map[string]interface{}{"kind": "channel-delivery", "outage_first": outage, "rows": len(sent), "blocks_on_the_wire": len(records), "all_arrived_in_time": arrived}, outage)
		out.Count("channel-delivery")
		if problem != "" {
			bad = append(bad, problem)
		}
		if !arrived && len(bad) == 0 {
			bad = append(bad, fmt.Sprintf("%d accepted rows, %d blocks on the wire after 20 s", len(sent), len(records)))
		}
		if len(bad) > 0 {
			if len(bad) > 6 {
				bad = bad[:6]
			}
			out.Violation(idx, "channel-delivery", strings.Join(bad, "; "), nil)
		}
		out.Check(idx, "(0%nat, 0%nat)")
	}
}
