// C16 harness: metrics rendered as protobuf, flat and line protocol, parsed by the real ingestion
// code; stored rows compared with the canonical-row model; batches routed through the real
// shard/family iterators.
package main

import (
	"bytes"
	"fmt"
	"math"
	"net/http"
	"sort"
	"strings"

	"github.com/cespare/xxhash/v2"
	"github.com/lindb/common/pkg/fasttime"
	"github.com/lindb/common/proto/gen/v1/flatMetricsV1"
	protoMetricsV1 "github.com/lindb/common/proto/gen/v1/linmetrics"
	commonseries "github.com/lindb/common/series"
	jump "github.com/lithammer/go-jump-consistent-hash"

	"github.com/lindb/lindb/constants"
	"github.com/lindb/lindb/ingestion/flat"
	"github.com/lindb/lindb/ingestion/influx"
	"github.com/lindb/lindb/ingestion/proto"
	"github.com/lindb/lindb/models"
	"github.com/lindb/lindb/pkg/timeutil"
	"github.com/lindb/lindb/series/metric"
	"github.com/lindb/lindb/series/tag"

	"lindbverif/vh"
)

type kvs struct{ K, V string }
type sfield struct {
	Name string
	Type int // protoMetricsV1.SimpleFieldType
	Val  float64
}

func (f sfield) MarshalJSON() ([]byte, error) {
	return []byte(fmt.Sprintf("{\"name\":%q,\"type\":%d,\"val\":\"%v\"}", f.Name, f.Type, f.Val)), nil
}

type gmetric struct {
	Name     string   `json:"name"`
	NS       string   `json:"ns"`
	TS       int64    `json:"ts"`
	Tags     []kvs    `json:"tags"`
	Enriched []kvs    `json:"enriched,omitempty"`
	Fields   []sfield `json:"fields"`
	Compound int      `json:"compound"` // 0 none, 1 valid, 2.. malformed variants
}

var keyPool = []string{"host", "ip", "zone", "région", "a", "ab", "b", "k_1", "z-z", "dc", "Host", "0"}
var valPool = []string{"1.1.1.1", "sh", "a b", "x,y", "k=v", "日本", "v", "vv", "0", "\\slash", "q\"uote", "1,b=2"}
var fieldPool = []string{"f", "usage", "load 1", "tür", "c", "Histogram1", "__bucket_5"}

func genMetric(r *vh.Rand, malformed bool) gmetric {
	m := gmetric{Name: []string{"cpu", "mem.used", "disk-io", "net|if"}[r.Intn(4)], NS: []string{"", "ns1", "prod", "a|b"}[r.Intn(4)]}
	m.TS = fasttime.UnixMilliseconds() + int64(r.Range(-3000, 3000))*1000
	nt := r.Intn(7)
	for i := 0; i < nt; i++ {
		m.Tags = append(m.Tags, kvs{keyPool[r.Intn(len(keyPool))], valPool[r.Intn(len(valPool))]})
	}
	if r.Chance(25) && len(m.Tags) > 0 { // repeated key
		t := m.Tags[r.Intn(len(m.Tags))]
		v := t.V
		if r.Chance(60) {
			v = valPool[r.Intn(len(valPool))]
		}
		m.Tags = append(m.Tags, kvs{t.K, v})
	}
	if r.Chance(20) {
		m.Enriched = append(m.Enriched, kvs{keyPool[r.Intn(len(keyPool))], "enriched"})
	}
	nf := r.Range(1, 3)
	for i := 0; i < nf; i++ {
		m.Fields = append(m.Fields, sfield{fieldPool[r.Intn(len(fieldPool))], r.Range(1, 5), float64(r.Range(-50, 1000)) / 4})
	}
	if r.Chance(15) {
		m.Compound = 1
	}
	if malformed {
		switch r.Intn(12) {
		case 0:
			m.Name = ""
		case 1:
			m.Name = strings.Repeat("n", 300)
		case 2:
			m.Fields = nil
			m.Compound = 0
		case 3:
			for i := 0; i < 40; i++ {
				m.Tags = append(m.Tags, kvs{fmt.Sprintf("t%02d", i), "v"})
			}
		case 4:
			m.Tags = append(m.Tags, kvs{"", "v"})
		case 5:
			m.Tags = append(m.Tags, kvs{"k", ""})
		case 6:
			m.Tags = append(m.Tags, kvs{strings.Repeat("k", 200), "v"})
		case 7:
			m.Tags = append(m.Tags, kvs{"k", strings.Repeat("v", 1100)})
		case 8:
			m.Fields = append(m.Fields, sfield{"", 1, 1})
		case 9:
			m.Fields = append(m.Fields, sfield{"x", 0, 1})
		case 10:
			m.Fields = append(m.Fields, sfield{"x", 1, []float64{math.NaN(), math.Inf(1), math.Inf(-1)}[r.Intn(3)]})
		default:
			m.Compound = r.Range(2, 6)
		}
	}
	return m
}

func (g gmetric) proto() *protoMetricsV1.Metric {
	m := &protoMetricsV1.Metric{Name: g.Name, Namespace: g.NS, Timestamp: g.TS}
	for _, t := range g.Tags {
		m.Tags = append(m.Tags, &protoMetricsV1.KeyValue{Key: t.K, Value: t.V})
	}
	for _, f := range g.Fields {
		m.SimpleFields = append(m.SimpleFields, &protoMetricsV1.SimpleField{Name: f.Name, Type: protoMetricsV1.SimpleFieldType(f.Type), Value: f.Val})
	}
	switch g.Compound {
	case 1:
		m.CompoundField = &protoMetricsV1.CompoundField{Min: 1, Max: 9, Sum: 20, Count: 4, Values: []float64{1, 2, 1}, ExplicitBounds: []float64{1, 5, math.Inf(1)}}
	case 2:
		m.CompoundField = &protoMetricsV1.CompoundField{Values: []float64{1, 2}, ExplicitBounds: []float64{1, math.Inf(1)}}
	case 3:
		m.CompoundField = &protoMetricsV1.CompoundField{Values: []float64{1, 2, 3}, ExplicitBounds: []float64{1, 5}}
	case 4:
		m.CompoundField = &protoMetricsV1.CompoundField{Sum: -1, Values: []float64{1, 2, 1}, ExplicitBounds: []float64{1, 5, math.Inf(1)}}
	case 5:
		m.CompoundField = &protoMetricsV1.CompoundField{Values: []float64{1, 2, 1}, ExplicitBounds: []float64{5, 1, math.Inf(1)}}
	case 6:
		m.CompoundField = &protoMetricsV1.CompoundField{Values: []float64{1, 2, 1}, ExplicitBounds: []float64{1, 5, 10}}
	}
	return m
}

// abstract form for the model's validate
func (g gmetric) pmetric() string {
	var ts []string
	for _, t := range append(append([]kvs{}, g.Tags...), g.Enriched...) {
		ts = append(ts, vh.Pair(vh.Nat(len(t.K)), vh.Nat(len(t.V))))
	}
	var fs []string
	for _, f := range g.Fields {
		cls := 0
		if math.IsNaN(f.Val) {
			cls = 1
		} else if math.IsInf(f.Val, 0) {
			cls = 2
		}
		fs = append(fs, vh.Tuple(vh.Nat(len(f.Name)), vh.Bool(f.Type != 0), vh.Nat(cls)))
	}
	c := "None"
	switch g.Compound {
	case 1:
		c = "(Some (3, 3, true, true, true))"
	case 2:
		c = "(Some (2, 2, true, true, true))"
	case 3:
		c = "(Some (3, 2, true, true, false))"
	case 4:
		c = "(Some (3, 3, false, true, true))"
	case 5:
		c = "(Some (3, 3, true, false, true))"
	case 6:
		c = "(Some (3, 3, true, true, false))"
	}
	return fmt.Sprintf("{| name_len := %d; tags_len := %s; sfields := %s; compound := %s |}", len(g.Name), vh.List(ts), vh.List(fs), c)
}

// key/value strings -> ids: keys ranked in byte order, values by first occurrence
type ids struct {
	keys []string
	vals map[string]int
}

func newIDs(all ...[]kvs) *ids {
	x := &ids{vals: map[string]int{}}
	seen := map[string]bool{}
	for _, l := range all {
		for _, t := range l {
			if !seen[t.K] {
				seen[t.K] = true
				x.keys = append(x.keys, t.K)
			}
			if _, ok := x.vals[t.V]; !ok {
				x.vals[t.V] = len(x.vals)
			}
		}
	}
	sort.Strings(x.keys)
	return x
}
func (x *ids) coq(l []kvs) string {
	var xs []string
	for _, t := range l {
		k := sort.SearchStrings(x.keys, t.K)
		if k >= len(x.keys) || x.keys[k] != t.K {
			k = 1000 + len(t.K) // a key that was never sent
		}
		v, ok := x.vals[t.V]
		if !ok {
			v = 1000
		}
		xs = append(xs, vh.Pair(vh.Nat(k), vh.Nat(v)))
	}
	return vh.List(xs)
}

func storedTags(m flatMetricsV1.Metric) []kvs {
	var out []kvs
	var kv flatMetricsV1.KeyValue
	for i := 0; i < m.KeyValuesLength(); i++ {
		m.KeyValues(&kv, i)
		out = append(out, kvs{string(kv.Key()), string(kv.Value())})
	}
	return out
}
func concat(ts []kvs) string {
	var sb strings.Builder
	for i, t := range ts {
		if i > 0 {
			sb.WriteByte(',')
		}
		sb.WriteString(t.K + "=" + t.V)
	}
	return sb.String()
}

func errCode(err error) int {
	switch err {
	case nil:
		return 0
	case metric.ErrMetricPBEmptyMetricName:
		return 1
	case constants.ErrMetricNameTooLong:
		return 2
	case metric.ErrMetricPBEmptyField:
		return 3
	case constants.ErrTooManyTagKeys:
		return 4
	case metric.ErrMetricEmptyTagKeyValue:
		return 5
	case constants.ErrTagKeyTooLong:
		return 6
	case constants.ErrTagValueTooLong:
		return 7
	case constants.ErrTooManyFields:
		return 8
	case metric.ErrBadMetricPBFormat:
		return 9
	case metric.ErrMetricEmptyFieldName:
		return 10
	case constants.ErrFieldNameTooLong:
		return 11
	case metric.ErrMetricNanField:
		return 12
	case metric.ErrMetricInfField:
		return 13
	}
	return 99
}

// heapStr: the influx path sanitises the request namespace in place (through an unsafe string-to-bytes view); a request's
// namespace comes from the URL and lives on the heap, a string literal does not
func heapStr(s string) string { return string(append([]byte(nil), s...)) }

func sanitizeName(s string) string { return strings.ReplaceAll(s, "|", "_") }
func sanitizeField(s string) string {
	if strings.HasPrefix(s, "Histogram") {
		return "_" + s
	}
	if strings.HasPrefix(s, "__bucket_") {
		return s[1:]
	}
	return s
}

// checkRow compares what the row stores with what was sent (everything but the tag list, which the model decides)
func checkRow(out *vh.Out, idx int, g gmetric, ns string, m flatMetricsV1.Metric, path string) {
	if string(m.Name()) != sanitizeName(g.Name) {
		out.Violation(idx, "name-changed", fmt.Sprintf("%s: sent %q stored %q", path, g.Name, m.Name()), nil)
	}
	wantNS := g.NS
	if ns != "" && (path == "proto" || g.NS == "") {
		wantNS = ns
	}
	if got := string(m.Namespace()); got != sanitizeName(wantNS) {
		out.Violation(idx, "namespace-changed", fmt.Sprintf("%s: want %q stored %q", path, wantNS, got), nil)
	}
	if m.Timestamp() != g.TS {
		out.Violation(idx, "timestamp-changed", fmt.Sprintf("%s: sent %d stored %d", path, g.TS, m.Timestamp()), nil)
	}
	if m.SimpleFieldsLength() != len(g.Fields) {
		out.Violation(idx, "fields-changed", fmt.Sprintf("%s: sent %d fields, stored %d", path, len(g.Fields), m.SimpleFieldsLength()), nil)
	} else {
		var sf flatMetricsV1.SimpleField
		for i, f := range g.Fields {
			m.SimpleFields(&sf, i)
			if string(sf.Name()) != sanitizeField(f.Name) || math.Float64bits(sf.Value()) != math.Float64bits(f.Val) {
				out.Violation(idx, "field-changed", fmt.Sprintf("%s: sent %q=%v stored %q=%v", path, f.Name, f.Val, sf.Name(), sf.Value()), nil)
			}
		}
	}
	// the tags hash is the hash of the stored (canonical) tag list
	st := storedTags(m)
	want := xxhash.Sum64String(concat(st))
	if m.KvsHash() != want {
		out.Violation(idx, "hash-not-of-stored-tags", fmt.Sprintf("%s: stored tags %v, KvsHash %d, xxhash(concat) %d", path, st, m.KvsHash(), want), nil)
	}
}

func functional(l []kvs) bool {
	m := map[string]string{}
	for _, t := range l {
		if v, ok := m[t.K]; ok && v != t.V {
			return false
		}
		m[t.K] = t.V
	}
	return true
}

func limitsCoq(l *models.Limits) string {
	return fmt.Sprintf("{| max_name := %d; max_tags := %d; max_tag_key := %d; max_tag_value := %d; max_fields := %d; max_field_name := %d |}",
		l.MaxMetricNameLength, l.MaxTagsPerMetric, l.MaxTagNameLength, l.MaxTagValueLength, l.MaxFieldsPerMetric, l.MaxFieldNameLength)
}

func toTags(l []kvs) tag.Tags {
	var ts tag.Tags
	for _, t := range l {
		ts = append(ts, tag.Tag{Key: []byte(t.K), Value: []byte(t.V)})
	}
	return ts
}

func influxEscape(s string, chars string) string {
	var sb strings.Builder
	for _, c := range s {
		if strings.ContainsRune(chars, c) {
			sb.WriteByte('\\')
		}
		sb.WriteRune(c)
	}
	return sb.String()
}

func main() {
	cfg := vh.ParseFlags()
	r := vh.NewRand(cfg.Seed)
	out := vh.NewOut(cfg.Out, "From Coq Require Import List Arith Bool ZArith.\nImport ListNotations.\nFrom LinDBV.C16 Require Import Model Check.\n")
	out.ShardSize = 400
	limSets := []*models.Limits{models.NewDefaultLimits(), func() *models.Limits {
		l := models.NewDefaultLimits()
		l.MaxTagsPerMetric, l.MaxTagNameLength, l.MaxFieldsPerMetric = 0, 0, 2
		return l
	}()}

	// ---------- conversion: protobuf path, one metric at a time ----------
	for i := 0; i < cfg.N; i++ {
		g := genMetric(r, r.Chance(25))
		lim := limSets[r.Intn(len(limSets))]
		ns := heapStr([]string{"", "", "req-ns", "team|infra"}[r.Intn(4)])
		sent := append(append([]kvs{}, g.Tags...), g.Enriched...)
		x := newIDs(sent)
		cvt := metric.NewProtoConverter(lim)
		cvt2, release := metric.NewBrokerRowProtoConverter([]byte(ns), toTags(g.Enriched), lim)
		_ = cvt
		var row metric.BrokerRow
		err := cvt2.ConvertTo(g.proto(), &row)
		release(cvt2)
		outOfOrder := false
		for j := 1; j < len(sent); j++ {
			if sent[j].K < sent[j-1].K {
				outOfOrder = true
			}
		}
		idx := out.Case(map[string]interface{}{"kind": "convert-proto", "metric": g, "ns": ns, "limits": lim.MaxTagsPerMetric},
			(len(sent) >= 2 && outOfOrder) || len(sent) != len(x.keys))
		out.Count("convert-proto")
		if err != nil {
			out.Count(fmt.Sprintf("convert-proto:rejected:%d", errCode(err)))
			out.Check(idx, fmt.Sprintf("check_convert %s %s %s %d None", limitsCoq(lim), g.pmetric(), x.coq(sent), errCode(err)))
			continue
		}
		st := storedTags(row.Metric())
		checkRow(out, idx, g, ns, row.Metric(), "proto")
		out.Check(idx, fmt.Sprintf("check_convert %s %s %s 0 (Some %s)", limitsCoq(lim), g.pmetric(), x.coq(sent), x.coq(st)))
		// tag order must not matter (when repeated keys carry equal values)
		if functional(sent) && len(g.Tags) >= 2 {
			m0 := row.Metric()
			h0 := m0.KvsHash()
			for k := 0; k < 3; k++ {
				p := r.Perm(len(g.Tags))
				g2 := g
				g2.Tags = make([]kvs, len(g.Tags))
				for a, b := range p {
					g2.Tags[a] = g.Tags[b]
				}
				c3, rel3 := metric.NewBrokerRowProtoConverter([]byte(ns), toTags(g.Enriched), lim)
				var row2 metric.BrokerRow
				err2 := c3.ConvertTo(g2.proto(), &row2)
				rel3(c3)
				m2 := row2.Metric()
				if err2 != nil || m2.KvsHash() != h0 || concat(storedTags(m2)) != concat(st) {
					out.Violation(idx, "tag-order-changes-identity", fmt.Sprintf("tags %v -> %v (hash %d); permuted %v -> %v (hash %d, err %v)",
						g.Tags, st, h0, g2.Tags, storedTags(m2), m2.KvsHash(), err2), nil)
					break
				}
				for _, n := range []int32{1, 2, 3, 7, 16} {
					if jump.Hash(h0, n) != jump.Hash(m2.KvsHash(), n) {
						out.Violation(idx, "tag-order-changes-shard", fmt.Sprintf("%v vs %v", g.Tags, g2.Tags), nil)
					}
				}
			}
		}
	}

	// ---------- conversion: flat and line protocol, valid metrics ----------
	for i := 0; i < cfg.N/2; i++ {
		g := genMetric(r, false)
		g.Compound = 0
		ns := heapStr([]string{"", "req-ns", "team|infra"}[r.Intn(3)])
		lim := limSets[0]
		sent := append(append([]kvs{}, g.Tags...), g.Enriched...)
		x := newIDs(sent)
		// flat
		rb := commonseries.CreateRowBuilder()
		rb.AddMetricName([]byte(g.Name))
		rb.AddNameSpace([]byte(g.NS))
		rb.AddTimestamp(g.TS)
		for _, t := range g.Tags {
			_ = rb.AddTag([]byte(t.K), []byte(t.V))
		}
		ok := true
		for _, f := range g.Fields {
			ft := []flatMetricsV1.SimpleFieldType{0, flatMetricsV1.SimpleFieldTypeDeltaSum, flatMetricsV1.SimpleFieldTypeLast, flatMetricsV1.SimpleFieldTypeMin, flatMetricsV1.SimpleFieldTypeMax, flatMetricsV1.SimpleFieldTypeFirst}[f.Type]
			if err := rb.AddSimpleField([]byte(f.Name), ft, f.Val); err != nil {
				ok = false
			}
		}
		data, err := rb.Build()
		if err == nil && ok {
			batch, err := flat.ParseReader(bytes.NewReader(data), toTags(g.Enriched), ns, lim)
			idx := out.Case(map[string]interface{}{"kind": "convert-flat", "metric": g, "ns": ns}, len(sent) != len(x.keys))
			out.Count("convert-flat")
			if err != nil || batch.Len() != 1 {
				out.Count("convert-flat:rejected")
			} else {
				m := batch.Rows()[0].Metric()
				// the client-side builder already de-duplicates and sanitises field names once; what is checked is the tag list
				out.Check(idx, fmt.Sprintf("check_stored %s %s", x.coq(sent), x.coq(storedTags(m))))
				if m.KvsHash() != xxhash.Sum64String(concat(storedTags(m))) {
					out.Violation(idx, "hash-not-of-stored-tags", fmt.Sprintf("flat: %v", storedTags(m)), nil)
				}
				if m.Timestamp() != g.TS || string(m.Name()) != sanitizeName(g.Name) {
					out.Violation(idx, "row-changed", fmt.Sprintf("flat: name %q ts %d", m.Name(), m.Timestamp()), nil)
				}
				// the row's own namespace, else the request's, else the default one
				wantNS := g.NS
				if wantNS == "" {
					wantNS = ns
				}
				if wantNS == "" {
					wantNS = "default-ns"
				}
				if got := string(m.Namespace()); got != sanitizeName(wantNS) {
					out.Violation(idx, "namespace-changed", fmt.Sprintf("flat: row namespace %q, request namespace %q, stored %q", g.NS, ns, got), nil)
				}
			}
		}
		// line protocol (tags go through a map: a repeated key keeps one of its values)
		var sb strings.Builder
		sb.WriteString(influxEscape(g.Name, ", "))
		for _, t := range g.Tags {
			sb.WriteString("," + influxEscape(t.K, ",= ") + "=" + influxEscape(t.V, ",= "))
		}
		sb.WriteString(" ")
		for j, f := range g.Fields {
			if j > 0 {
				sb.WriteString(",")
			}
			sb.WriteString(fmt.Sprintf("%s=%v", influxEscape(fmt.Sprintf("fld%d", j), ",= "), f.Val))
		}
		sb.WriteString(fmt.Sprintf(" %d\n", g.TS*1000000))
		req, _ := http.NewRequest(http.MethodPost, "http://x/write?precision=ns", strings.NewReader(sb.String()))
		batch, err := influx.Parse(req, toTags(g.Enriched), ns, lim)
		idx := out.Case(map[string]interface{}{"kind": "convert-influx", "line": sb.String(), "ns": ns}, len(sent) != len(x.keys))
		out.Count("convert-influx")
		if err != nil || batch.Len() != 1 {
			out.Count("convert-influx:rejected")
			continue
		}
		m := batch.Rows()[0].Metric()
		out.Check(idx, fmt.Sprintf("check_stored %s %s", x.coq(sent), x.coq(storedTags(m))))
		if m.KvsHash() != xxhash.Sum64String(concat(storedTags(m))) {
			out.Violation(idx, "hash-not-of-stored-tags", fmt.Sprintf("influx: %v", storedTags(m)), nil)
		}
		if m.Timestamp() != g.TS || string(m.Name()) != sanitizeName(g.Name) {
			out.Violation(idx, "row-changed", fmt.Sprintf("influx: line %q name %q ts %d want %d", sb.String(), m.Name(), m.Timestamp(), g.TS), nil)
		}
	}

	// ---------- limits belong to the request: consecutive requests of databases with different limits (decoders, converters
	// and batches are pooled across requests); payloads of clean metrics (distinct short tag keys, plain field names), so that
	// "valid under this request's limits" is unambiguous: tags <= max tags and fields <= max fields (0 = unlimited)
	{
		strict := models.NewDefaultLimits()
		strict.MaxTagsPerMetric, strict.MaxFieldsPerMetric = 1, 1
		mid := models.NewDefaultLimits()
		mid.MaxTagsPerMetric, mid.MaxFieldsPerMetric = 2, 3
		loose := models.NewDefaultLimits()
		loose.MaxTagsPerMetric, loose.MaxFieldsPerMetric = 0, 0
		sets := []*models.Limits{strict, mid, loose, models.NewDefaultLimits()}
		for i := 0; i < cfg.N/4+12; i++ {
			lim := sets[r.Intn(len(sets))]
			path := []string{"flat", "proto", "influx"}[r.Intn(3)]
			n := r.Range(1, 4)
			type clean struct{ name string; tags, fields int }
			var ms []clean
			var want []string
			for j := 0; j < n; j++ {
				c := clean{name: fmt.Sprintf("lm%d_%d", i, j), tags: r.Intn(4), fields: r.Range(1, 4)}
				ms = append(ms, c)
				stored := c.fields
				if path == "influx" {
					stored = 2 * c.fields // a numeric line-protocol field is stored as two fields; the limit counts stored fields
				}
				if (lim.MaxTagsPerMetric <= 0 || c.tags <= lim.MaxTagsPerMetric) && (lim.MaxFieldsPerMetric <= 0 || stored <= lim.MaxFieldsPerMetric) {
					want = append(want, c.name)
				}
			}
			var batch *metric.BrokerBatchRows
			var err error
			switch path {
			case "flat":
				var buf bytes.Buffer
				for _, c := range ms {
					rb := commonseries.CreateRowBuilder()
					rb.AddMetricName([]byte(c.name))
					rb.AddTimestamp(1700000000000)
					for t := 0; t < c.tags; t++ {
						_ = rb.AddTag([]byte(fmt.Sprintf("k%d", t)), []byte("v"))
					}
					for f := 0; f < c.fields; f++ {
						_ = rb.AddSimpleField([]byte(fmt.Sprintf("f%d", f)), flatMetricsV1.SimpleFieldTypeDeltaSum, 1)
					}
					data, berr := rb.Build()
					if berr != nil {
						panic(berr)
					}
					buf.Write(data)
				}
				batch, err = flat.ParseReader(bytes.NewReader(buf.Bytes()), nil, "ns", lim)
			case "proto":
				var ml protoMetricsV1.MetricList
				for _, c := range ms {
					pm := &protoMetricsV1.Metric{Name: c.name, Timestamp: 1700000000000}
					for t := 0; t < c.tags; t++ {
						pm.Tags = append(pm.Tags, &protoMetricsV1.KeyValue{Key: fmt.Sprintf("k%d", t), Value: "v"})
					}
					for f := 0; f < c.fields; f++ {
						pm.SimpleFields = append(pm.SimpleFields, &protoMetricsV1.SimpleField{Name: fmt.Sprintf("f%d", f), Type: protoMetricsV1.SimpleFieldType_DELTA_SUM, Value: 1})
					}
					ml.Metrics = append(ml.Metrics, pm)
				}
				data, _ := ml.Marshal()
				req, _ := http.NewRequest(http.MethodPost, "http://x/write", bytes.NewReader(data))
				batch, err = proto.Parse(req, nil, "ns", lim)
			default:
				var sb strings.Builder
				for _, c := range ms {
					sb.WriteString(c.name)
					for t := 0; t < c.tags; t++ {
						sb.WriteString(fmt.Sprintf(",k%d=v", t))
					}
					sb.WriteString(" ")
					for f := 0; f < c.fields; f++ {
						if f > 0 {
							sb.WriteString(",")
						}
						sb.WriteString(fmt.Sprintf("f%d=1", f))
					}
					sb.WriteString(" 1700000000000\n")
				}
				req, _ := http.NewRequest(http.MethodPost, "http://x/write?precision=ms", strings.NewReader(sb.String()))
				batch, err = influx.Parse(req, nil, "ns", lim)
			}
			var got []string
			if err == nil && batch != nil {
				for _, row := range batch.Rows() {
					m := row.Metric()
					got = append(got, string(m.Name()))
				}
			}
			idx := out.Case(map[string]interface{}{"kind": "limits-of-the-request", "path": path, "max_tags": lim.MaxTagsPerMetric, "max_fields": lim.MaxFieldsPerMetric,
				"metrics": fmt.Sprint(ms), "accepted": got, "valid": want}, len(want) != n && len(want) > 0)
			out.Count("limits-of-the-request:" + path)
			if strings.Join(got, ",") != strings.Join(want, ",") {
				out.Violation(idx, "limits-of-another-request", fmt.Sprintf("%s path, limits tags<=%d fields<=%d: metrics %v: accepted %v, valid under these limits %v (err %v)",
					path, lim.MaxTagsPerMetric, lim.MaxFieldsPerMetric, ms, got, want, err), nil)
			}
			if batch != nil {
				batch.Release()
			}
			out.Check(idx, "(0%nat, 0%nat)")
		}
	}

	// ---------- line-protocol bodies of several lines, some of them rejected: an accepted row is the row its line gives
	// when it is sent alone ("does not depend on the other rows of the batch", "invalid metrics are rejected as a whole")
	{
		describe := func(m flatMetricsV1.Metric) string {
			var fs []string
			var f flatMetricsV1.SimpleField
			for j := 0; j < m.SimpleFieldsLength(); j++ {
				m.SimpleFields(&f, j)
				fs = append(fs, fmt.Sprintf("%s:%d=%v", f.Name(), f.Type(), f.Value()))
			}
			return fmt.Sprintf("ns=%s name=%s ts=%d tags=%v fields=%v hash=%d", m.Namespace(), m.Name(), m.Timestamp(), storedTags(m), fs, m.KvsHash())
		}
		parseBody := func(body string) ([]string, error) {
			req, _ := http.NewRequest(http.MethodPost, "http://x/write?precision=ms", strings.NewReader(body))
			batch, err := influx.Parse(req, nil, "ns", limSets[0])
			if err != nil {
				return nil, err
			}
			var ds []string
			for _, row := range batch.Rows() {
				ds = append(ds, describe(row.Metric()))
			}
			return ds, nil
		}
		now := fasttime.UnixMilliseconds()
		names := []string{"cpu", "mem", "disk", "net"}
		tagk := []string{"host", "dc", "region", "az"}
		for b := 0; b < cfg.N/6+3; b++ {
			var lines []string
			kinds := map[string]int{}
			for l := r.Range(2, 5); l > 0; l-- {
				var sb strings.Builder
				sb.WriteString(names[r.Intn(len(names))])
				for _, k := range tagk {
					if r.Chance(45) {
						sb.WriteString(fmt.Sprintf(",%s=v%d", k, r.Intn(3)))
					}
				}
				kind := "valid"
				switch x := r.Intn(100); {
				case x < 55:
					sb.WriteString(fmt.Sprintf(" used=%d,idle=%d %d", r.Intn(50), r.Intn(50), now-int64(r.Intn(1000))))
				case x < 70:
					kind = "bad-timestamp"
					sb.WriteString(fmt.Sprintf(" used=%d 12345abc", r.Intn(50)))
				case x < 85:
					kind = "no-usable-field"
					sb.WriteString(fmt.Sprintf(" msg=\"hello\" %d", now))
				default:
					kind = "no-fields"
					sb.WriteString(fmt.Sprintf(" %d", now))
				}
				kinds[kind]++
				lines = append(lines, sb.String())
			}
			idx := out.Case(map[string]interface{}{"kind": "influx-body", "lines": lines}, kinds["valid"] >= 1 && len(kinds) >= 2)
			out.Count("influx-body")
			var alone []string
			for _, ln := range lines {
				ds, err := parseBody(ln + "\n")
				if err == nil {
					alone = append(alone, ds...)
				}
			}
			whole, err := parseBody(strings.Join(lines, "\n") + "\n")
			if err != nil {
				if len(alone) > 0 {
					out.Violation(idx, "influx-body-rejected", err.Error(), lines)
				}
			} else if strings.Join(whole, "\n") != strings.Join(alone, "\n") {
				out.Violation(idx, "row-depends-on-other-lines", "the rows of the body differ from the rows of its lines sent alone",
					map[string]interface{}{"body": whole, "alone": alone})
			}
			out.Check(idx, "(0%nat, 0%nat)")
		}
	}

	// ---------- batches: eviction, shard groups, family groups ----------
	type rowInfo struct {
		ID    int    `json:"id"`
		TS    int64  `json:"ts"`
		Hash  uint64 `json:"hash"`
		Shard int    `json:"shard"`
	}
	intervals := []int64{10000, 60000, 300000, 3600000}
	for b := 0; b < cfg.N/4; b++ {
		n := r.Range(1, 40)
		nshards := int32(r.Range(1, 9))
		iv := intervals[r.Intn(len(intervals))]
		behind := []int64{0, 3600000, 86400000}[r.Intn(3)]
		ahead := []int64{0, 3600000}[r.Intn(2)]
		now0 := fasttime.UnixMilliseconds()
		var ml protoMetricsV1.MetricList
		var gs []gmetric
		midnightBatch := r.Chance(15)
		if midnightBatch {
			behind = 0 // no write window: the rows may be up to a day old
		}
		for i := 0; i < n; i++ {
			g := genMetric(r, false)
			g.Enriched = nil
			g.Name = fmt.Sprintf("m%d", i) // the row id
			// timestamps: same family, neighbouring families, day/month boundaries, far outside the window
			base := now0
			pick := r.Intn(7)
			if midnightBatch {
				pick = 6 // every row of the batch on either side of the last midnight: only two families, of two segments
			}
			switch pick {
			case 6:
				// on either side of the last midnight (UTC = local here): the first hour of the day and the last hour of
				// the day before are families of two segments
				day := base / 86400000 * 86400000
				if r.Bool() {
					g.TS = day + int64(r.Range(1, 3500))*1000
				} else {
					g.TS = day - int64(r.Range(1, 3500))*1000
				}
			case 0:
				g.TS = base - int64(r.Intn(50))*1000
			case 1:
				g.TS = base/3600000*3600000 + int64(r.Range(-2, 2))
			case 2:
				g.TS = base - int64(r.Range(0, 5))*3600000
			case 3:
				g.TS = base - behind - int64(r.Range(20, 5000))*1000
			case 4:
				g.TS = base + ahead + int64(r.Range(20, 5000))*1000
			default:
				g.TS = base/86400000*86400000 + int64(r.Range(-3, 3))*1000
			}
			gs = append(gs, g)
			ml.Metrics = append(ml.Metrics, g.proto())
		}
		data, _ := ml.Marshal()
		req, _ := http.NewRequest(http.MethodPost, "http://x/write", bytes.NewReader(data))
		batch, err := proto.Parse(req, nil, "ns", limSets[0])
		if err != nil || batch.Len() != n {
			out.Violation(0, "batch-parse", fmt.Sprintf("err %v len %d want %d", err, batch.Len(), n), nil)
			continue
		}
		evictedN := batch.EvictOutOfTimeRange(behind, ahead)
		now1 := fasttime.UnixMilliseconds()
		// skip batches whose classification depends on the clock tick
		ambiguous := false
		for _, g := range gs {
			for _, now := range []int64{now0, now1} {
				a := (behind > 0 && g.TS < now0-behind) || (ahead > 0 && g.TS > now0+ahead)
				bb := (behind > 0 && g.TS < now-behind) || (ahead > 0 && g.TS > now+ahead)
				if a != bb {
					ambiguous = true
				}
			}
		}
		if ambiguous {
			out.Count("route:ambiguous-clock-skipped")
			continue
		}
		var infos []rowInfo
		idOf := func(m flatMetricsV1.Metric) int {
			var id int
			fmt.Sscanf(string(m.Name()), "m%d", &id)
			return id
		}
		var evictedIDs []int
		for _, row := range batch.Rows() {
			m := row.Metric()
			sh := int(jump.Hash(m.KvsHash(), nshards))
			infos = append(infos, rowInfo{idOf(m), m.Timestamp(), m.KvsHash(), sh})
			if row.IsOutOfTimeRange {
				evictedIDs = append(evictedIDs, idOf(m))
			}
		}
		if evictedN != len(evictedIDs) {
			out.Violation(0, "evicted-count", fmt.Sprintf("%d vs %d", evictedN, len(evictedIDs)), nil)
		}
		it := batch.NewShardGroupIterator(nshards)
		var groups []string
		shardsHit, famsHit := map[int]bool{}, map[int64]bool{}
		for it.HasRowsForNextShard() {
			shardIdx, fit := it.FamilyRowsForNextShard(timeutil.Interval(iv))
			for fit.HasNextFamily() {
				ft, rows := fit.NextFamily()
				var idsl []int
				for _, row := range rows {
					idsl = append(idsl, idOf(row.Metric()))
				}
				shardsHit[shardIdx] = true
				famsHit[ft] = true
				groups = append(groups, vh.Tuple(vh.Nat(shardIdx), vh.Z(ft), vh.NatList(idsl)))
			}
		}
		tn := 0
		if iv >= 3600000 {
			tn = 2
		} else if iv >= 300000 {
			tn = 1
		}
		var rowsCoq []string
		for _, ri := range infos {
			rowsCoq = append(rowsCoq, fmt.Sprintf("{| rid := %d; rts := %s; rshard := %d |}", ri.ID, vh.Z(ri.TS), ri.Shard))
		}
		idx := out.Case(map[string]interface{}{"kind": "route", "rows": infos, "shards": nshards, "interval": iv, "behind": behind, "ahead": ahead, "now": now0},
			len(shardsHit) >= 2 && len(famsHit) >= 2 && len(evictedIDs) >= 1)
		out.Count("route")
		out.Check(idx, fmt.Sprintf("check_route 0%%Z %s %d %s %s %s %s\n %s %s", vh.Z(int64(tn)), nshards, vh.Z(now0), vh.Z(behind), vh.Z(ahead),
			vh.List(rowsCoq), vh.List(groups), vh.NatList(evictedIDs)))
		// as the write handler does: the batch goes back to the pool, the next request reuses its rows
		batch.Release()
	}
	channelDelivery(out, r, 4)
	out.Finish()
}
