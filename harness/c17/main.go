// C17 harness: SQL text and raw AST generators; Parse -> MarshalJSON -> UnmarshalJSON on the real code;
// the AST is rendered in the model's constructors and the wire JSON as the model's tree.
package main

import (
	"bytes"
	"encoding/json"
	"fmt"
	"math"
	"reflect"
	"runtime"
	"strings"
	"sync"
	"sync/atomic"
	"time"

	commonencoding "github.com/lindb/common/pkg/encoding"

	"github.com/lindb/lindb/aggregation/function"
	"github.com/lindb/lindb/pkg/timeutil"
	"github.com/lindb/lindb/sql"
	"github.com/lindb/lindb/sql/stmt"

	"lindbverif/vh"
)

// ---------- Coq rendering ----------

func cstr(s string) string { return "\"" + strings.ReplaceAll(s, "\"", "\"\"") + "\"" }
func cstrs(xs []string) string {
	ys := make([]string, len(xs))
	for i, x := range xs {
		ys[i] = cstr(x)
	}
	return vh.List(ys)
}
func floatText(v float64) string { return string(commonencoding.JSONMarshal(v)) }

func exprCoq(e stmt.Expr) string {
	switch x := e.(type) {
	case *stmt.FieldExpr:
		return fmt.Sprintf("(Field %s)", cstr(x.Name))
	case *stmt.NumberLiteral:
		return fmt.Sprintf("(Number %s)", cstr(floatText(x.Val)))
	case *stmt.CallExpr:
		var ps []string
		for _, p := range x.Params {
			ps = append(ps, exprCoq(p))
		}
		return fmt.Sprintf("(Call %s %s)", vh.Z(int64(x.FuncType)), vh.List(ps))
	case *stmt.ParenExpr:
		return fmt.Sprintf("(Paren %s)", exprCoq(x.Expr))
	case *stmt.BinaryExpr:
		return fmt.Sprintf("(Binary %s %s %s)", exprCoq(x.Left), exprCoq(x.Right), vh.Z(int64(x.Operator)))
	case *stmt.EqualsExpr:
		return fmt.Sprintf("(Equals %s %s)", cstr(x.Key), cstr(x.Value))
	case *stmt.InExpr:
		return fmt.Sprintf("(In_ %s %s)", cstr(x.Key), cstrs(x.Values))
	case *stmt.LikeExpr:
		return fmt.Sprintf("(Like %s %s)", cstr(x.Key), cstr(x.Value))
	case *stmt.RegexExpr:
		return fmt.Sprintf("(Regex %s %s)", cstr(x.Key), cstr(x.Regexp))
	case *stmt.NotExpr:
		return fmt.Sprintf("(Not %s)", exprCoq(x.Expr))
	case *stmt.SelectItem:
		return fmt.Sprintf("(SelectItem %s %s)", exprCoq(x.Expr), cstr(x.Alias))
	case *stmt.OrderByExpr:
		return fmt.Sprintf("(OrderBy %s %s)", exprCoq(x.Expr), vh.Bool(x.Desc))
	}
	return "(Field \"<unknown>\")"
}
func exprsCoq(es []stmt.Expr) string {
	var xs []string
	for _, e := range es {
		xs = append(xs, exprCoq(e))
	}
	return vh.List(xs)
}
func optExprCoq(e stmt.Expr) string {
	if e == nil {
		return "None"
	}
	return "(Some " + exprCoq(e) + ")"
}
func queryCoq(q *stmt.Query) string {
	return fmt.Sprintf("{| q_explain := %s; q_namespace := %s; q_metric := %s; q_select := %s; q_all := %s; q_cond := %s; q_start := %s; q_end := %s; q_interval := %s; q_storage := %s; q_ratio := %s; q_auto := %s; q_groupby := %s; q_having := %s; q_orderby := %s; q_limit := %s |}",
		vh.Bool(q.Explain), cstr(q.Namespace), cstr(q.MetricName), exprsCoq(q.SelectItems), vh.Bool(q.AllFields), optExprCoq(q.Condition),
		vh.Z(q.TimeRange.Start), vh.Z(q.TimeRange.End), vh.Z(int64(q.Interval)), vh.Z(int64(q.StorageInterval)), vh.Z(int64(q.IntervalRatio)),
		vh.Bool(q.AutoGroupByTime), cstrs(q.GroupBy), optExprCoq(q.Having), exprsCoq(q.OrderByItems), vh.Z(int64(q.Limit)))
}

// wire JSON -> model tree, keys in wire order
func jsonCoq(data []byte) (string, error) {
	dec := json.NewDecoder(bytes.NewReader(data))
	dec.UseNumber()
	s, err := jsonVal(dec, "")
	if err != nil {
		return "", err
	}
	if dec.More() {
		return "", fmt.Errorf("trailing data")
	}
	return s, nil
}
func jsonVal(dec *json.Decoder, key string) (string, error) {
	tok, err := dec.Token()
	if err != nil {
		return "", err
	}
	switch t := tok.(type) {
	case json.Delim:
		if t == '{' {
			var fs []string
			for dec.More() {
				kt, err := dec.Token()
				if err != nil {
					return "", err
				}
				k := kt.(string)
				v, err := jsonVal(dec, k)
				if err != nil {
					return "", err
				}
				fs = append(fs, vh.Pair(cstr(k), v))
			}
			if _, err := dec.Token(); err != nil {
				return "", err
			}
			return "(JObj " + vh.List(fs) + ")", nil
		}
		var xs []string
		for dec.More() {
			v, err := jsonVal(dec, "")
			if err != nil {
				return "", err
			}
			xs = append(xs, v)
		}
		if _, err := dec.Token(); err != nil {
			return "", err
		}
		return "(JArr " + vh.List(xs) + ")", nil
	case nil:
		return "JNull", nil
	case bool:
		return "(JBool " + vh.Bool(t) + ")", nil
	case json.Number:
		if key == "val" {
			return "(JFloat " + cstr(t.String()) + ")", nil
		}
		n, err := t.Int64()
		if err != nil {
			return "(JFloat " + cstr(t.String()) + ")", nil
		}
		return "(JNum " + vh.Z(n) + ")", nil
	case string:
		if key == "interval" || key == "storageInterval" {
			// the text form of an interval is decoded by the implementation's own parser; its
			// round trip with Interval.String is checked directly (see intervalText below)
			var iv timeutil.Interval
			if err := iv.ValueOf(t); err != nil {
				return "(JStr " + cstr(t) + ")", nil
			}
			return "(JIv " + vh.Z(int64(iv)) + ")", nil
		}
		return "(JStr " + cstr(t) + ")", nil
	}
	return "", fmt.Errorf("unexpected token %v", tok)
}

// ---------- generators ----------

var tagKeys = []string{"host", "ip", "region", "disk", "path", "zone-1", "k_2"}
var tagVals = []string{"1.1.1.1", "sh", "/data", "a b", "x,y", "~b", "é", "", "v*", "0"}
var fields = []string{"f", "usage", "load1", "a", "b2"}
var funcs = []string{"sum", "min", "max", "count", "avg", "last", "first", "stddev", "rate"}

func genArith(r *vh.Rand, d int) string {
	if d <= 0 || r.Chance(35) {
		if r.Chance(25) {
			return []string{"100", "1.5", "0.99", "3", "2.25"}[r.Intn(5)]
		}
		return fields[r.Intn(len(fields))]
	}
	switch r.Intn(4) {
	case 0:
		return funcs[r.Intn(len(funcs))] + "(" + genArith(r, d-1) + ")"
	case 1:
		return "(" + genArith(r, d-1) + ")"
	case 2:
		return genArith(r, d-1) + []string{"+", "-", "*", "/"}[r.Intn(4)] + genArith(r, d-1)
	default:
		return "quantile(" + fields[r.Intn(len(fields))] + ",0.99)"
	}
}
func q1(s string) string { return "'" + s + "'" }
func genCond(r *vh.Rand, d int) string {
	if d <= 0 || r.Chance(40) {
		k := tagKeys[r.Intn(len(tagKeys))]
		if strings.ContainsAny(k, "-") {
			k = "'" + k + "'"
		}
		v := tagVals[r.Intn(len(tagVals))]
		switch r.Intn(8) {
		case 0:
			return k + "=" + q1(v)
		case 1:
			return k + "!=" + q1(v)
		case 2:
			return k + " in (" + q1(v) + "," + q1(tagVals[r.Intn(len(tagVals))]) + ")"
		case 3:
			return k + " not in (" + q1(v) + ")"
		case 4:
			return k + " like " + q1(v+"%")
		case 5:
			return k + " not like " + q1("%"+v)
		case 6:
			return k + "=~" + q1("/"+v+".*/")
		default:
			return k + "!~" + q1(v)
		}
	}
	switch r.Intn(3) {
	case 0:
		return "(" + genCond(r, d-1) + ")"
	case 1:
		return genCond(r, d-1) + " and " + genCond(r, d-1)
	default:
		return genCond(r, d-1) + " or " + genCond(r, d-1)
	}
}
func genHaving(r *vh.Rand, d int) string {
	if d <= 0 || r.Chance(50) {
		return genArith(r, 1) + []string{">", "<", ">=", "<=", "=", "!="}[r.Intn(6)] + []string{"10", "3.5", "99.7"}[r.Intn(3)]
	}
	if r.Bool() {
		return "(" + genHaving(r, d-1) + ")"
	}
	return genHaving(r, d-1) + []string{" and ", " or "}[r.Intn(2)] + genHaving(r, d-1)
}

func genSQL(r *vh.Rand, depth int) (string, int) {
	clauses := 0
	var sb strings.Builder
	if r.Chance(8) {
		sb.WriteString("explain ")
	}
	sb.WriteString("select ")
	if r.Chance(8) {
		sb.WriteString("*")
	} else {
		n := r.Range(1, 4)
		for i := 0; i < n; i++ {
			if i > 0 {
				sb.WriteString(",")
			}
			sb.WriteString(genArith(r, depth))
			if r.Chance(30) {
				sb.WriteString(" as " + []string{"f1", "alias_2", "t"}[r.Intn(3)])
			}
		}
	}
	sb.WriteString(" from " + []string{"cpu", "mem.used", "'disk-io'"}[r.Intn(3)])
	if r.Chance(25) {
		sb.WriteString(" on 'ns-1'")
		clauses++
	}
	hasWhere := false
	if r.Chance(70) {
		sb.WriteString(" where " + genCond(r, depth))
		hasWhere = true
		clauses++
	}
	if r.Chance(50) {
		if hasWhere {
			sb.WriteString(" and ")
		} else {
			sb.WriteString(" where ")
		}
		sb.WriteString([]string{"time>now()-1h", "time>'20190410 00:00:00' and time<'20190410 10:00:00'", "time>=now()-30m and time<now()",
			// a point in time, and a range that lies inside one storage slot (planned as start = end)
			"time>='20230601 10:00:00' and time<='20230601 10:00:00'", "time>='20230601 10:00:03' and time<='20230601 10:00:08'"}[r.Intn(5)])
		clauses++
	}
	if r.Chance(55) {
		sb.WriteString(" group by ")
		var gs []string
		n := r.Range(0, 3)
		for i := 0; i < n; i++ {
			gs = append(gs, tagKeys[r.Intn(5)])
		}
		if r.Chance(60) || n == 0 {
			gs = append(gs, []string{"time(10s)", "time(1m)", "time()", "time(1h)", "time(100s)"}[r.Intn(5)])
		}
		sb.WriteString(strings.Join(gs, ","))
		clauses++
		if r.Chance(45) {
			sb.WriteString(" having " + genHaving(r, depth-1))
			clauses++
		}
	}
	if r.Chance(35) {
		sb.WriteString(" order by " + fields[r.Intn(len(fields))])
		if r.Bool() {
			sb.WriteString(" desc")
		}
		clauses++
	}
	if r.Chance(40) {
		sb.WriteString(fmt.Sprintf(" limit %d", r.Range(1, 500)))
		clauses++
	}
	return sb.String(), clauses
}

// raw AST trees, including shapes the parser never builds
func genExpr(r *vh.Rand, d int) stmt.Expr {
	s := func(xs []string) string { return xs[r.Intn(len(xs))] }
	if d <= 0 || r.Chance(30) {
		switch r.Intn(6) {
		case 0:
			return &stmt.FieldExpr{Name: s(fields)}
		case 1:
			return &stmt.NumberLiteral{Val: []float64{0, 1.5, -3, 1e21, 0.1, math.MaxFloat64, 1e-7, 100}[r.Intn(8)]}
		case 2:
			return &stmt.EqualsExpr{Key: s(tagKeys), Value: s(tagVals)}
		case 3:
			var vs []string
			for i, n := 0, r.Intn(4); i < n; i++ {
				vs = append(vs, s(tagVals))
			}
			return &stmt.InExpr{Key: s(tagKeys), Values: vs}
		case 4:
			return &stmt.LikeExpr{Key: s(tagKeys), Value: s(tagVals)}
		default:
			return &stmt.RegexExpr{Key: s(tagKeys), Regexp: s(tagVals)}
		}
	}
	switch r.Intn(6) {
	case 0:
		var ps []stmt.Expr
		for i, n := 0, r.Intn(4); i < n; i++ {
			ps = append(ps, genExpr(r, d-1))
		}
		return &stmt.CallExpr{FuncType: function.FuncType(r.Intn(11)), Params: ps}
	case 1:
		return &stmt.ParenExpr{Expr: genExpr(r, d-1)}
	case 2:
		return &stmt.BinaryExpr{Left: genExpr(r, d-1), Right: genExpr(r, d-1), Operator: stmt.BinaryOP(r.Range(1, 16))}
	case 3:
		return &stmt.NotExpr{Expr: genExpr(r, d-1)}
	case 4:
		return &stmt.SelectItem{Expr: genExpr(r, d-1), Alias: []string{"", "a", "x y"}[r.Intn(3)]}
	default:
		return &stmt.OrderByExpr{Expr: genExpr(r, d-1), Desc: r.Bool()}
	}
}

func depthOf(s string) int {
	d, m := 0, 0
	for _, c := range s {
		if c == '(' {
			d++
			if d > m {
				m = d
			}
		} else if c == ')' {
			d--
		}
	}
	return m
}

func main() {
	cfg := vh.ParseFlags()
	r := vh.NewRand(cfg.Seed)
	out := vh.NewOut(cfg.Out, "From Coq Require Import List String ZArith Bool.\nImport ListNotations.\nOpen Scope string_scope.\nFrom LinDBV.C17 Require Import Model Check.\n")
	out.ShardSize = 250
	maxDepth := 3
	if cfg.Tier == "thorough" {
		maxDepth = 5
	}
	parseFail := 0
	var accepted []string
	for i := 0; i < cfg.N; i++ {
		text, clauses := genSQL(r, r.Range(1, maxDepth))
		st, err := sql.Parse(text)
		if err != nil {
			parseFail++
			out.Count("sql:rejected")
			continue
		}
		q, ok := st.(*stmt.Query)
		if !ok {
			continue
		}
		if len(accepted) < 24 && clauses >= 3 {
			accepted = append(accepted, text)
		}
		// determinism of parsing
		st2, err2 := sql.Parse(text)
		wire, _ := q.MarshalJSON()
		idx := out.Case(map[string]interface{}{"kind": "sql", "sql": text, "wire": string(wire)}, depthOf(text) >= 3 && clauses >= 4)
		out.Count("sql:accepted")
		out.Count(fmt.Sprintf("sql:clauses:%d", clauses))
		if err2 != nil || queryCoq(st2.(*stmt.Query)) != queryCoq(q) {
			// now() moves: compare modulo the time range
			q2 := st2.(*stmt.Query)
			q2.TimeRange = q.TimeRange
			if queryCoq(q2) != queryCoq(q) {
				out.Violation(idx, "parse-not-deterministic", text, nil)
			}
		}
		var back stmt.Query
		if err := back.UnmarshalJSON(wire); err != nil {
			out.Violation(idx, "unmarshal-error", err.Error(), text)
		} else if queryCoq(&back) != queryCoq(q) {
			out.Violation(idx, "statement-changed-on-the-wire", text, map[string]string{"sent": queryCoq(q), "received": queryCoq(&back)})
		}
		tree, err := jsonCoq(wire)
		if err != nil {
			out.Violation(idx, "wire-not-json", err.Error(), string(wire))
			continue
		}
		out.Check(idx, fmt.Sprintf("check_query %s\n  %s", queryCoq(q), tree))
	}
	// planner-shaped statements: fields the broker fills in after parsing
	for i := 0; i < cfg.N/4; i++ {
		text, _ := genSQL(r, 2)
		st, err := sql.Parse(text)
		if err != nil {
			continue
		}
		q := st.(*stmt.Query)
		q.Interval = timeutil.Interval([]int64{0, 10000, 60000, 90000, 3600000, 129600000, 86400000 * 45, 86400000 * 60}[r.Intn(8)])
		q.StorageInterval = timeutil.Interval([]int64{0, 10000, 300000, 3600000}[r.Intn(4)])
		q.IntervalRatio = r.Intn(7)
		if q.StorageInterval > 0 && r.Chance(60) {
			// the root truncates both ends of the range to the storage interval before it serialises the statement
			iv := q.StorageInterval.Int64()
			q.TimeRange.Start = q.TimeRange.Start / iv * iv
			q.TimeRange.End = q.TimeRange.End / iv * iv
		}
		if r.Chance(30) && q.Having == nil {
			q.Having = genExpr(r, 2)
		}
		wire, _ := q.MarshalJSON()
		idx := out.Case(map[string]interface{}{"kind": "planned", "sql": text, "wire": string(wire)}, true)
		out.Count("planned")
		var back stmt.Query
		if err := back.UnmarshalJSON(wire); err != nil {
			out.Violation(idx, "unmarshal-error", err.Error(), text)
		} else if queryCoq(&back) != queryCoq(q) {
			out.Violation(idx, "statement-changed-on-the-wire", text, map[string]string{"sent": queryCoq(q), "received": queryCoq(&back)})
		}
		tree, err := jsonCoq(wire)
		if err != nil {
			out.Violation(idx, "wire-not-json", err.Error(), string(wire))
			continue
		}
		out.Check(idx, fmt.Sprintf("check_query %s\n  %s", queryCoq(q), tree))
	}
	// raw expression trees
	for i := 0; i < cfg.N; i++ {
		e := genExpr(r, r.Range(1, maxDepth+1))
		wire := stmt.Marshal(e)
		idx := out.Case(map[string]interface{}{"kind": "expr", "expr": exprCoq(e), "wire": string(wire)}, depthOf(exprCoq(e)) >= 4)
		out.Count("expr")
		back, err := stmt.Unmarshal(wire)
		if err != nil {
			out.Violation(idx, "unmarshal-error", err.Error(), exprCoq(e))
		} else if exprCoq(back) != exprCoq(e) {
			out.Violation(idx, "expression-changed-on-the-wire", exprCoq(e), exprCoq(back))
		}
		tree, err := jsonCoq(wire)
		if err != nil {
			out.Violation(idx, "wire-not-json", err.Error(), string(wire))
			continue
		}
		out.Check(idx, fmt.Sprintf("check_expr %s\n  %s", exprCoq(e), tree))
	}
	// interval text form: String/ValueOf round trip on whole-second values (what parser and planner produce)
	for i := 0; i < 200; i++ {
		v := int64(r.Range(1, 5000)) * 1000 * []int64{1, 60, 3600, 86400, 86400 * 30}[r.Intn(5)]
		var back timeutil.Interval
		if err := back.ValueOf(timeutil.Interval(v).String()); err != nil || int64(back) != v {
			out.Violation(0, "interval-text-roundtrip", fmt.Sprintf("%d -> %q -> %d (%v)", v, timeutil.Interval(v).String(), back, err), nil)
		}
	}
	// "the same text always yields equal statements" for callers that parse at the same time (broker and root HTTP APIs
	// serve concurrent requests; lexer and parser objects come from pools): every concurrent parse must equal the
	// sequential parse of its text (modulo the time range, now() moves)
	{
		canon := func(text string) (string, error) {
			st, err := sql.Parse(text)
			if err != nil {
				return "", err
			}
			q, ok := st.(*stmt.Query)
			if !ok {
				return "", fmt.Errorf("not a query")
			}
			q.TimeRange = timeutil.TimeRange{}
			return queryCoq(q), nil
		}
		refs := map[string]string{}
		for _, t := range accepted {
			if c, err := canon(t); err == nil {
				refs[t] = c
			}
		}
		var texts []string
		for _, t := range accepted {
			if _, ok := refs[t]; ok {
				texts = append(texts, t)
			}
		}
		dur := 1500 * time.Millisecond
		if cfg.Tier == "thorough" {
			dur = 8 * time.Second
		}
		workers := 4 * runtime.GOMAXPROCS(0)
		var parses int64
		var mu sync.Mutex
		bad := ""
		var wg sync.WaitGroup
		stopAt := time.Now().Add(dur)
		for w := 0; w < workers && len(texts) > 0; w++ {
			wg.Add(1)
			go func(w int) {
				defer wg.Done()
				defer func() {
					if rec := recover(); rec != nil {
						mu.Lock()
						if bad == "" {
							bad = fmt.Sprintf("panic while parsing %q: %v", texts[w%len(texts)], rec)
						}
						mu.Unlock()
					}
				}()
				t := texts[w%len(texts)]
				for time.Now().Before(stopAt) {
					c, err := canon(t)
					atomic.AddInt64(&parses, 1)
					if err != nil || c != refs[t] {
						mu.Lock()
						if bad == "" {
							bad = fmt.Sprintf("concurrent parse of %q: err=%v, statement differs from the sequential parse=%v", t, err, err == nil)
						}
						mu.Unlock()
						return
					}
				}
			}(w)
		}
		wg.Wait()
		idx := out.Case(map[string]interface{}{"kind": "concurrent-parse", "texts": len(texts), "workers": workers}, true)
		out.CountN("concurrent-parses", int(parses))
		if bad != "" {
			out.Violation(idx, "parse-not-deterministic", bad, nil)
		}
		out.Check(idx, "(0%nat, 0%nat)")
	}
	out.Notes = append(out.Notes, fmt.Sprintf("generated SQL rejected by the parser: %d", parseFail))
	// ---------- metadata statements (show namespaces / metrics / tag keys / tag values / fields): what the root sends to a leaf
	// for them is stmt.MetricMetadata through MarshalJSON / UnmarshalJSON; parsed twice they are equal, decoded they are
	// deeply equal to what was parsed (twice over: root -> intermediate -> leaf).  Judged directly.
	{
		names := []string{"cpu", "mem.used", "a b", "net|if", "日本"}
		var texts []string
		for _, n := range names {
			q := "'" + n + "'"
			texts = append(texts,
				"show namespaces", "show namespaces where namespace='"+n[:1]+"' limit 7",
				"show metrics", "show metrics on 'ns' where metric='"+n[:1]+"' limit 3",
				"show fields from "+q, "show fields from "+q+" on 'ns'",
				"show tag keys from "+q, "show tag keys from "+q+" on 'ns'",
				"show tag values from "+q+" with key=host", "show tag values from "+q+" on 'ns' with key='ho st' where host='a' limit 5",
				"show tag values from "+q+" with key=host where host like 'a*' and zone in ('x','y')")
		}
		for _, text := range texts {
			st, err := sql.Parse(text)
			if err != nil {
				out.Count("metadata-sql:rejected")
				continue
			}
			m, ok := st.(*stmt.MetricMetadata)
			if !ok {
				continue
			}
			idx := out.Case(map[string]interface{}{"kind": "metadata-sql", "sql": text}, m.Type == stmt.TagValue || m.Type == stmt.Field)
			out.Count("metadata-sql:" + m.Type.String())
			st2, err2 := sql.Parse(text)
			if err2 != nil || !reflect.DeepEqual(st, st2) {
				out.Violation(idx, "metadata-parse-not-deterministic", text, nil)
			}
			cur := m
			for hop := 0; hop < 2; hop++ {
				wire, err := cur.MarshalJSON()
				if err != nil {
					out.Violation(idx, "metadata-marshal", err.Error(), nil)
					break
				}
				next := &stmt.MetricMetadata{}
				if err := next.UnmarshalJSON(wire); err != nil {
					out.Violation(idx, "metadata-unmarshal", fmt.Sprintf("%s: %v", wire, err), nil)
					break
				}
				if !reflect.DeepEqual(m, next) {
					out.Violation(idx, "metadata-statement-changed-on-the-wire", fmt.Sprintf("%s: parsed type %s, after hop %d type %s; wire %s", text, m.Type, hop+1, next.Type, wire), nil)
					break
				}
				cur = next
			}
			out.Check(idx, "(0%nat, 0%nat)")
		}
	}
	out.Finish()
}
