// C18 harness: drives the real master StateManager and ShardAssignment functions,
// emits observations as Coq terms (cases.v) for the model comparison and oracle.
package main

import (
	"context"
	"encoding/json"
	"fmt"
	"math/rand"
	"sort"
	"strings"
	"sync"

	"github.com/lindb/lindb/constants"
	"github.com/lindb/lindb/coordinator/discovery"
	"github.com/lindb/lindb/coordinator/master"
	"github.com/lindb/lindb/models"
	"github.com/lindb/lindb/pkg/option"
	"github.com/lindb/lindb/pkg/state"

	"lindbverif/vh"
)

// ---------- in-memory state.Repository ----------

type memRepo struct {
	state.Repository // nil: unimplemented methods panic if ever called
	mu               sync.Mutex
	kv               map[string][]byte
	written          map[string]bool
}

func newMemRepo() *memRepo { return &memRepo{kv: map[string][]byte{}, written: map[string]bool{}} }
func (r *memRepo) Get(_ context.Context, key string) ([]byte, error) {
	r.mu.Lock()
	defer r.mu.Unlock()
	v, ok := r.kv[key]
	if !ok {
		return nil, state.ErrNotExist
	}
	return v, nil
}
func (r *memRepo) List(_ context.Context, prefix string) ([]state.KeyValue, error) {
	r.mu.Lock()
	defer r.mu.Unlock()
	var keys []string
	for k := range r.kv {
		if strings.HasPrefix(k, prefix) {
			keys = append(keys, k)
		}
	}
	sort.Strings(keys)
	var rs []state.KeyValue
	for _, k := range keys {
		rs = append(rs, state.KeyValue{Key: k, Value: r.kv[k]})
	}
	return rs, nil
}
func (r *memRepo) Put(_ context.Context, key string, val []byte) error {
	r.mu.Lock()
	defer r.mu.Unlock()
	r.kv[key] = append([]byte(nil), val...)
	r.written[key] = true
	return nil
}
func (r *memRepo) Delete(_ context.Context, key string) error {
	r.mu.Lock()
	defer r.mu.Unlock()
	delete(r.kv, key)
	return nil
}
func (r *memRepo) Close() error { return nil }

// ---------- events ----------

type ev struct {
	Kind  string `json:"k"` // up, down, cfg, drop
	Node  int    `json:"node,omitempty"`
	DB    int    `json:"db,omitempty"`
	Num   int    `json:"num,omitempty"`
	RF    int    `json:"rf,omitempty"`
	Start int    `json:"start,omitempty"`
	Shift int    `json:"shift,omitempty"`
}

func (e ev) coq() string {
	switch e.Kind {
	case "up":
		return fmt.Sprintf("NodeUp %d", e.Node)
	case "down":
		return fmt.Sprintf("NodeDown %d", e.Node)
	case "cfg":
		return fmt.Sprintf("DbCfg %d %d %d %d %d", e.DB, e.Num, e.RF, e.Start, e.Shift)
	default:
		return fmt.Sprintf("DropDb %d", e.DB)
	}
}

func dbName(d int) string { return fmt.Sprintf("db%d", d) }

func coqAsg(a *models.ShardAssignment) string {
	var ids []int
	for id := range a.Shards {
		ids = append(ids, int(id))
	}
	sort.Ints(ids)
	var xs []string
	for _, id := range ids {
		var rs []int
		for _, r := range a.Shards[models.ShardID(id)].Replicas {
			rs = append(rs, int(r))
		}
		xs = append(xs, vh.Pair(vh.Nat(id), vh.NatList(rs)))
	}
	return vh.List(xs)
}

func observe(sm master.StateManager) string {
	st := sm.GetStorageState()
	var lv []int
	for id := range st.LiveNodes {
		lv = append(lv, int(id))
	}
	sort.Ints(lv)
	var dbs []string
	for name := range st.ShardStates {
		dbs = append(dbs, name)
	}
	sort.Strings(dbs)
	var xs []string
	for _, name := range dbs {
		var d int
		fmt.Sscanf(name, "db%d", &d)
		shs := st.ShardStates[name]
		var ids []int
		for id := range shs {
			ids = append(ids, int(id))
		}
		sort.Ints(ids)
		for _, id := range ids {
			s := shs[models.ShardID(id)]
			var rs []int
			for _, r := range s.Replica.Replicas {
				rs = append(rs, int(r))
			}
			xs = append(xs, fmt.Sprintf("((%d, %d), {| replicas := %s; online := %s; leader := %s |})",
				d, id, vh.NatList(rs), vh.Bool(s.State == models.OnlineShard), vh.OptNat(s.Leader != models.NoLeader, int(s.Leader))))
		}
	}
	return fmt.Sprintf("{| o_live := %s; o_shards := %s |}", vh.NatList(lv), vh.List(xs))
}

// runHistory executes one event history on a fresh state manager.
func runHistory(evs []ev) (obs []string) {
	repo := newMemRepo()
	ctx, cancel := context.WithCancel(context.Background())
	defer cancel()
	sm := master.NewStateManager(ctx, repo, nil)
	defer sm.Close()
	for i := range evs {
		e := &evs[i]
		switch e.Kind {
		case "up":
			n := models.StatefulNode{ID: models.NodeID(e.Node)}
			n.HostIP = fmt.Sprintf("10.0.0.%d", e.Node)
			n.GRPCPort = 2891
			data, _ := json.Marshal(&n)
			key := constants.GetStorageLiveNodePath(fmt.Sprintf("%d", e.Node))
			_ = repo.Put(ctx, key, data)
			master.VerifProcessEvent(sm, &discovery.Event{Type: discovery.NodeStartup, Key: key, Value: data})
		case "down":
			key := constants.GetStorageLiveNodePath(fmt.Sprintf("%d", e.Node))
			_ = repo.Delete(ctx, key)
			master.VerifProcessEvent(sm, &discovery.Event{Type: discovery.NodeFailure, Key: key})
		case "cfg":
			cfg := models.Database{Name: dbName(e.DB), NumOfShard: e.Num, ReplicaFactor: e.RF, Option: &option.DatabaseOption{}}
			data, _ := json.Marshal(&cfg)
			key := constants.GetDatabaseConfigPath(cfg.Name)
			_ = repo.Put(ctx, key, data)
			// the implementation draws start index and shift from math/rand: pin the stream,
			// learn the two draws, pin it again for the real call
			live, _ := repo.List(ctx, constants.StorageLiveNodesPath)
			seed := int64(i*7919 + e.DB*31 + e.Num)
			if len(live) > 0 {
				rand.Seed(seed)
				e.Start = rand.Intn(len(live))
				e.Shift = rand.Intn(len(live))
			}
			rand.Seed(seed)
			putCount(repo, constants.GetDatabaseAssignPath(cfg.Name))
			master.VerifProcessEvent(sm, &discovery.Event{Type: discovery.DatabaseConfigChanged, Key: key, Value: data})
			after, err := repo.Get(ctx, constants.GetDatabaseAssignPath(cfg.Name))
			// the harness plays the etcd watch: a Put on the assignment path is delivered as an event
			if err == nil && putCount(repo, constants.GetDatabaseAssignPath(cfg.Name)) {
				master.VerifProcessEvent(sm, &discovery.Event{Type: discovery.ShardAssignmentChanged,
					Key: constants.GetDatabaseAssignPath(cfg.Name), Value: after})
			}
		case "drop":
			key := constants.GetDatabaseConfigPath(dbName(e.DB))
			_ = repo.Delete(ctx, key)
			master.VerifProcessEvent(sm, &discovery.Event{Type: discovery.DatabaseConfigDeletion, Key: key})
		}
		obs = append(obs, observe(sm))
	}
	return obs
}

// putCount reports (and clears) whether key was written since the last call.
func putCount(r *memRepo, key string) bool {
	r.mu.Lock()
	defer r.mu.Unlock()
	w := r.written[key]
	delete(r.written, key)
	return w
}

func genHistory(r *vh.Rand, tier string) []ev {
	nNodes := r.Range(1, 7)
	nEv := r.Range(4, 30)
	if tier == "thorough" {
		nEv = r.Range(4, 60)
	}
	var evs []ev
	// bias: bring some nodes up first
	up0 := r.Range(0, nNodes)
	for i := 0; i < up0; i++ {
		evs = append(evs, ev{Kind: "up", Node: r.Range(1, nNodes)})
	}
	for len(evs) < nEv {
		switch x := r.Intn(100); {
		case x < 25:
			evs = append(evs, ev{Kind: "up", Node: r.Range(1, nNodes)})
		case x < 55:
			evs = append(evs, ev{Kind: "down", Node: r.Range(1, nNodes)})
		case x < 90:
			num := r.Range(1, 12)
			if r.Chance(5) {
				num = 0
			}
			rf := r.Range(1, 4)
			if r.Chance(5) {
				rf = r.Range(0, 8)
			}
			evs = append(evs, ev{Kind: "cfg", DB: r.Range(0, 2), Num: num, RF: rf})
		default:
			evs = append(evs, ev{Kind: "drop", DB: r.Range(0, 2)})
		}
	}
	return evs
}

type assignCase struct {
	Kind  string `json:"k"` // assign, modify
	Nodes []int  `json:"nodes"`
	Old   int    `json:"old,omitempty"`
	Num   int    `json:"num"`
	RF    int    `json:"rf"`
	Start int    `json:"start"`
}

func nodeIDs(xs []int) []models.NodeID {
	var rs []models.NodeID
	for _, x := range xs {
		rs = append(rs, models.NodeID(x))
	}
	return rs
}

func main() {
	cfg := vh.ParseFlags()
	r := vh.NewRand(cfg.Seed)
	out := vh.NewOut(cfg.Out, "From Coq Require Import List Arith Bool.\nImport ListNotations.\nFrom LinDBV.C18 Require Import Model Check.\n")

	nHist := cfg.N
	for h := 0; h < nHist; h++ {
		evs := genHistory(r, cfg.Tier)
		obs := runHistory(evs)
		// non-trivial: >= 2 nodes, some rf >= 2, a node-down event hitting a current leader
		nodes := map[int]bool{}
		rf2 := false
		for _, e := range evs {
			if e.Kind == "up" {
				nodes[e.Node] = true
			}
			if e.Kind == "cfg" && e.RF >= 2 {
				rf2 = true
			}
		}
		leaderHit := false
		for i, e := range evs {
			if e.Kind == "down" && i > 0 && strings.Contains(obs[i-1], fmt.Sprintf("leader := (Some %d)", e.Node)) {
				leaderHit = true
			}
			out.Count("event:" + e.Kind)
		}
		out.Count(fmt.Sprintf("history_len:%02d-%02d", len(evs)/10*10, len(evs)/10*10+9))
		idx := out.Case(map[string]interface{}{"kind": "history", "events": evs}, len(nodes) >= 2 && rf2 && leaderHit)
		var es []string
		for _, e := range evs {
			es = append(es, e.coq())
		}
		out.Check(idx, fmt.Sprintf("check_hist %s\n  %s", vh.List(es), vh.List(obs)))
	}

	// direct calls of ShardAssignment / ModifyShardAssignment with fixed start index
	nAsg := cfg.N * 3
	for a := 0; a < nAsg; a++ {
		n := r.Range(1, 8)
		base := r.Range(1, 50)
		var nodes []int
		for i := 0; i < n; i++ {
			nodes = append(nodes, base+i*r.Range(1, 1)+i) // ascending distinct
		}
		num := r.Range(1, 3*n+3)
		rf := r.Range(1, n)
		if r.Chance(8) {
			rf = r.Range(0, n+2)
		}
		if r.Chance(4) {
			num = 0
		}
		start := r.Range(0, 2*n)
		db := &models.Database{Name: "d", NumOfShard: num, ReplicaFactor: rf, Option: &option.DatabaseOption{}}
		if r.Chance(60) {
			res, err := master.ShardAssignment(nodeIDs(nodes), db, start, -1)
			c := assignCase{"assign", nodes, 0, num, rf, start}
			idx := out.Case(c, n >= 3 && rf >= 2 && num > n)
			out.Count("assign")
			rs := "None"
			if err == nil {
				rs = "(Some " + coqAsg(res) + ")"
			} else {
				out.Count("assign:error")
			}
			out.Check(idx, fmt.Sprintf("check_assign %s %d %d %d %d %s", vh.NatList(nodes), num, rf, start, start, rs))
		} else {
			oldN := r.Range(1, 2*n+1)
			oldDB := &models.Database{Name: "d", NumOfShard: oldN, ReplicaFactor: rf, Option: &option.DatabaseOption{}}
			oldRes, err := master.ShardAssignment(nodeIDs(nodes), oldDB, r.Range(0, n-1), -1)
			if err != nil {
				continue
			}
			oldCoq := coqAsg(oldRes)
			// grow on a possibly different node set (nodes alive now)
			nodes2 := nodes
			if r.Chance(50) {
				nodes2 = append([]int(nil), nodes...)
				nodes2 = append(nodes2, nodes[len(nodes)-1]+1+r.Intn(3))
			}
			err = master.ModifyShardAssignment(nodeIDs(nodes2), db, oldRes, start, models.ShardID(oldN))
			c := assignCase{"modify", nodes2, oldN, num, rf, start}
			idx := out.Case(c, len(nodes2) >= 3 && rf >= 2 && num > oldN)
			out.Count("modify")
			rs := "None"
			if err == nil {
				rs = "(Some " + coqAsg(oldRes) + ")"
			} else {
				out.Count("modify:error")
			}
			out.Check(idx, fmt.Sprintf("check_modify %s %s %d %d %d %d %s", vh.NatList(nodes2), oldCoq, num, rf, start, start, rs))
		}
	}
	out.Finish()
}
