// C19 harness, second part: task requests handed to the real query.TaskHandler (stream loop + worker pool) with the real
// leaf task processor and the real metadata suggest pipeline (pipeline -> metadata suggest stage -> namespace / metric
// suggest operators) over a storage engine whose meta database answers, fails, finds nothing or panics as the request's
// prefix says.  Requests that are refused before a pipeline exists (plan not decodable, node not a target, unknown
// database, payload not decodable) are mixed in.  Observed: the responses captured from the stream per request id.
package main

import (
	"context"
	"errors"
	"fmt"
	"io"
	"strings"
	"sync"
	"time"

	"github.com/lindb/common/pkg/encoding"
	"github.com/lindb/common/pkg/ltoml"
	"google.golang.org/grpc"
	"google.golang.org/grpc/metadata"

	"github.com/lindb/lindb/config"
	"github.com/lindb/lindb/constants"
	"github.com/lindb/lindb/index"
	"github.com/lindb/lindb/models"
	protoCommonV1 "github.com/lindb/lindb/proto/gen/v1/common"
	"github.com/lindb/lindb/query"
	stagepkg "github.com/lindb/lindb/query/stage"
	"github.com/lindb/lindb/rpc"
	"github.com/lindb/lindb/series/metric"
	"github.com/lindb/lindb/sql"
	"github.com/lindb/lindb/sql/stmt"
	"github.com/lindb/lindb/tsdb"

	"lindbverif/vh"
)

type leafMetaDB struct{ index.MetricMetaDatabase }

func answer(prefix string) ([]string, error) {
	switch {
	case strings.HasPrefix(prefix, "fail"):
		return nil, errors.New("read meta index: input/output error")
	case strings.HasPrefix(prefix, "nf"):
		return nil, constants.ErrNotFound
	case strings.HasPrefix(prefix, "wnf"):
		return nil, fmt.Errorf("namespace of %s: %w", prefix, constants.ErrNotFound)
	case strings.HasPrefix(prefix, "panic"):
		panic("meta database: slice bounds out of range")
	}
	return []string{prefix + "-1", prefix + "-2"}, nil
}
func (m *leafMetaDB) SuggestNamespace(prefix string, _ int) ([]string, error) { return answer(prefix) }

// the metadata lookup of a data query: the metric index cannot be read
func (m *leafMetaDB) GetMetricID(_, _ string) (metric.ID, error) {
	return 0, errors.New("read metric index: input/output error")
}
func (m *leafMetaDB) SuggestMetrics(_, prefix string, _ int) ([]string, error) {
	return answer(prefix)
}

type leafDB struct {
	tsdb.Database
	meta index.MetricMetaDatabase
}

func (db *leafDB) MetaDB() index.MetricMetaDatabase { return db.meta }

type leafEngine struct {
	tsdb.Engine
	db tsdb.Database
}

func (e *leafEngine) GetDatabase(name string) (tsdb.Database, bool) {
	if name == "db" {
		return e.db, true
	}
	return nil, false
}

type leafStream struct {
	grpc.ServerStream
	ctx       context.Context
	mu        sync.Mutex
	responses []*protoCommonV1.TaskResponse
	requests  []*protoCommonV1.TaskRequest
	next      int
	allRead   chan struct{}
	closeRecv chan struct{}
}

func (s *leafStream) Context() context.Context { return s.ctx }
func (s *leafStream) Send(resp *protoCommonV1.TaskResponse) error {
	s.mu.Lock()
	defer s.mu.Unlock()
	s.responses = append(s.responses, resp)
	return nil
}
func (s *leafStream) Recv() (*protoCommonV1.TaskRequest, error) {
	if s.next < len(s.requests) {
		req := s.requests[s.next]
		s.next++
		return req, nil
	}
	close(s.allRead)
	<-s.closeRecv
	return nil, io.EOF
}

// request kinds: 0 ok, 1 stage error, 2 not found, 3 wrapped not found, 4 stage panic,
// 5 unknown database, 6 node is not a target, 7 plan not decodable, 8 payload not decodable,
// 9 a data query whose metadata lookup fails, 10 the same with explain
type leafReq struct {
	Kind   int    `json:"kind"`
	Metric bool   `json:"metric_suggest"` // false: namespace suggest
	Resp   []bool `json:"responses_without_error"`
}

var leafKinds = []string{"ok", "fail", "nf", "wnf", "panic", "unknown-db", "not-a-target", "bad-plan", "bad-payload", "data-fail", "data-fail-explain"}

func (q *leafReq) fate() string {
	switch q.Kind {
	case 0:
		return "(Piped (Stage Ok false []) false)"
	case 1:
		return "(Piped (Stage Err false []) false)"
	case 2, 3:
		return "(Piped (Stage NotFoundPlain false []) true)"
	case 4:
		return "(Piped (Stage Panic false []) false)"
	case 9, 10:
		return "(Piped (Stage Err false []) false)"
	}
	return "Refused"
}

func leafRequests(out *vh.Out, r *vh.Rand, rounds int) {
	leaf := &models.StatelessNode{HostIP: "1.1.1.1", GRPCPort: 2891}
	for round := 0; round < rounds; round++ {
		engine := &leafEngine{db: &leafDB{meta: &leafMetaDB{}}}
		serverFct := rpc.NewTaskServerFactory()
		processor := query.NewLeafTaskProcessor(leaf, engine, serverFct)
		workers := r.Range(1, 3)
		pool := stagepkg.VerifNewPool(fmt.Sprintf("verif-c19-leaf-%d", round), workers)
		handler := query.NewTaskHandler(config.Query{Timeout: ltoml.Duration(10 * time.Second)}, serverFct, processor, pool)
		n := r.Range(3, 8)
		reqs := make([]*leafReq, n)
		stream := &leafStream{
			ctx:     metadata.NewIncomingContext(context.Background(), metadata.Pairs(constants.RPCMetaKeyLogicNode, "2.2.2.2:2891")),
			allRead: make(chan struct{}), closeRecv: make(chan struct{}),
		}
		for i := range reqs {
			q := &leafReq{Kind: r.Intn(len(leafKinds)), Metric: r.Bool()}
			if r.Chance(40) {
				q.Kind = r.Intn(5)
			}
			reqs[i] = q
			plan := &models.PhysicalPlan{Database: "db",
				Targets:   []*models.Target{{Indicator: leaf.Indicator(), ShardIDs: []models.ShardID{1}}},
				Receivers: []string{"2.2.2.2:2891"}}
			typ := stmt.Namespace
			if q.Metric {
				typ = stmt.Metric
			}
			prefix := leafKinds[q.Kind]
			if q.Kind > 4 {
				prefix = "ok"
			}
			payload, err := (&stmt.MetricMetadata{Type: typ, Namespace: "ns", Prefix: fmt.Sprintf("%s%d", prefix, i)}).MarshalJSON()
			if err != nil {
				panic(err)
			}
			switch q.Kind {
			case 5:
				plan.Database = "nosuchdb"
			case 6:
				plan.Targets[0].Indicator = "9.9.9.9:2891"
			}
			planBytes := encoding.JSONMarshal(plan)
			switch q.Kind {
			case 7:
				planBytes = []byte("{not json")
			case 8:
				payload = []byte("{not json")
			}
			reqType := protoCommonV1.RequestType_Metadata
			if q.Kind >= 9 {
				text := "select f from cpu where time>='2023-06-15 10:00:00' and time<='2023-06-15 10:06:40'"
				if q.Kind == 10 {
					text = "explain " + text
				}
				st, perr := sql.Parse(text)
				if perr != nil {
					panic(perr)
				}
				payload, _ = st.(*stmt.Query).MarshalJSON()
				reqType = protoCommonV1.RequestType_Data
			}
			stream.requests = append(stream.requests, &protoCommonV1.TaskRequest{
				RequestID: fmt.Sprintf("r%d-%d", round, i), RequestType: reqType,
				PhysicalPlan: planBytes, Payload: payload})
		}
		done := make(chan error, 1)
		go func() { done <- handler.Handle(stream) }()
		hang := false
		select {
		case <-stream.allRead:
		case <-done:
			hang = true
		case <-time.After(20 * time.Second):
			hang = true
		}
		pool.Stop() // finishes every submitted task
		close(stream.closeRecv)
		if !hang {
			<-done
		}
		stream.mu.Lock()
		for i, q := range reqs {
			q.Resp = []bool{}
			for _, resp := range stream.responses {
				if resp.RequestID == fmt.Sprintf("r%d-%d", round, i) {
					q.Resp = append(q.Resp, resp.ErrMsg == "")
				}
			}
		}
		stream.mu.Unlock()
		for i, q := range reqs {
			idx := out.Case(map[string]interface{}{"kind": "leaf-request", "round": round, "position": i, "workers": workers, "request": q, "request_kind": leafKinds[q.Kind]}, (q.Kind >= 1 && q.Kind <= 4) || q.Kind >= 9)
			out.Count("leaf-request:" + leafKinds[q.Kind])
			if hang {
				out.Violation(idx, "handler-stopped-reading", "the task handler did not read every request", nil)
			}
			var bs []string
			for _, b := range q.Resp {
				bs = append(bs, vh.Bool(b))
			}
			out.Check(idx, fmt.Sprintf("check_leaf %s %s", q.fate(), vh.List(bs)))
		}
	}
}
