// C19 harness: fake plan nodes on the real query pipeline (real baseStage.Execute, real worker pool),
// completion order driven by gates released in a PRNG-chosen order.
package main

import (
	"context"
	"errors"
	"fmt"
	"sync"
	"sync/atomic"
	"time"

	commonmodels "github.com/lindb/common/models"

	"github.com/lindb/lindb/constants"
	"github.com/lindb/lindb/flow"
	"github.com/lindb/lindb/query"
	stagepkg "github.com/lindb/lindb/query/stage"
	trackerpkg "github.com/lindb/lindb/query/tracker"

	"lindbverif/vh"
)

type tree struct {
	O int `json:"o"` // 0 ok, 1 err, 2 panic while executing the plan, 3 panic in NextStages() after the plan ran,
	// 4 not-found error of a node that ignores not-found (tolerated), 5 not-found error of a plain node, 6 other error of an ignoring node
	Async bool    `json:"a"`
	Next  []*tree `json:"n,omitempty"`
}

func (t *tree) coq() string {
	o := []string{"Ok", "Err", "Panic", "PanicNext", "NotFoundIgnored", "NotFoundPlain", "ErrIgnoring"}[t.O]
	var xs []string
	for _, c := range t.Next {
		xs = append(xs, c.coq())
	}
	return fmt.Sprintf("(Stage %s %s %s)", o, vh.Bool(t.Async), vh.List(xs))
}
func (t *tree) size() int {
	n := 1
	for _, c := range t.Next {
		n += c.size()
	}
	return n
}

// ---------- controller: gates ----------

type ctrl struct {
	mu        sync.Mutex
	waiting   []*node
	started   int32 // plan nodes that began executing
	completed int32 // stages whose Complete() ran
	failed    int32
	panicked  int32
	tails     int32 // plan nodes after the stage's main node that ran
	cbs       []bool
	unfinAtCb int
	wake      chan struct{}
}

type node struct {
	c       *ctrl
	outcome int
	release chan struct{}
}

func (n *node) Execute() error { _, err := n.ExecuteWithStats(); return err }
func (n *node) ExecuteWithStats() (*commonmodels.OperatorStats, error) {
	atomic.AddInt32(&n.c.started, 1)
	n.c.mu.Lock()
	n.c.waiting = append(n.c.waiting, n)
	n.c.mu.Unlock()
	select {
	case n.c.wake <- struct{}{}:
	default:
	}
	<-n.release
	switch n.outcome {
	case 1:
		atomic.AddInt32(&n.c.failed, 1)
		return nil, errors.New("stage failed")
	case 2:
		atomic.AddInt32(&n.c.failed, 1)
		atomic.AddInt32(&n.c.panicked, 1)
		panic("stage panicked")
	case 4: // tolerated: the node ignores not-found
		return nil, fmt.Errorf("%w, family of this shard", constants.ErrNotFound)
	case 5:
		atomic.AddInt32(&n.c.failed, 1)
		return nil, fmt.Errorf("%w, metric", constants.ErrNotFound)
	case 6:
		atomic.AddInt32(&n.c.failed, 1)
		return nil, errors.New("read data family: input/output error")
	}
	return nil, nil
}
func (n *node) Children() []stagepkg.PlanNode { return nil }
func (n *node) AddChild(_ stagepkg.PlanNode)  {}
func (n *node) IgnoreNotFound() bool          { return n.outcome == 4 || n.outcome == 6 }

// the plan of every stage: an empty root whose children are the stage's main node (gated, carries the outcome) and a
// tail node that only records that it ran - it must run iff the main node succeeded or its not-found was tolerated
type rootNode struct{ kids []stagepkg.PlanNode }

func (n *rootNode) Execute() error { return nil }
func (n *rootNode) ExecuteWithStats() (*commonmodels.OperatorStats, error) {
	return nil, nil
}
func (n *rootNode) Children() []stagepkg.PlanNode { return n.kids }
func (n *rootNode) AddChild(_ stagepkg.PlanNode)  {}
func (n *rootNode) IgnoreNotFound() bool          { return false }

type tailNode struct{ c *ctrl }

func (n *tailNode) Execute() error { _, err := n.ExecuteWithStats(); return err }
func (n *tailNode) ExecuteWithStats() (*commonmodels.OperatorStats, error) {
	atomic.AddInt32(&n.c.tails, 1)
	return nil, nil
}
func (n *tailNode) Children() []stagepkg.PlanNode { return nil }
func (n *tailNode) AddChild(_ stagepkg.PlanNode)  {}
func (n *tailNode) IgnoreNotFound() bool          { return false }

// panicNext is a stage whose plan runs fine and whose NextStages() panics (shard scan / grouping / metadata
// lookup stages do real work there); everything else is the embedded stage.
type panicNext struct {
	*stagepkg.VerifStage
	c *ctrl
}

func (s *panicNext) NextStages() []stagepkg.Stage {
	atomic.AddInt32(&s.c.failed, 1)
	atomic.AddInt32(&s.c.panicked, 1)
	panic("next stages panicked")
}

func build(ctx context.Context, c *ctrl, pool interface{}, t *tree, id string, mk func(async bool, id string, n stagepkg.PlanNode) *stagepkg.VerifStage) stagepkg.Stage {
	n := &node{c: c, outcome: t.O, release: make(chan struct{})}
	s := mk(t.Async, id, &rootNode{kids: []stagepkg.PlanNode{n, &tailNode{c: c}}})
	s.OnComplete = func() { atomic.AddInt32(&c.completed, 1) }
	if t.O == 3 {
		return &panicNext{VerifStage: s, c: c}
	}
	for i, ch := range t.Next {
		s.Next = append(s.Next, build(ctx, c, pool, ch, fmt.Sprintf("%s.%d", id, i), mk))
	}
	return s
}

type result struct {
	Cbs       []bool `json:"cbs"`
	Completed int    `json:"completed"`
	Failed    bool   `json:"failed"`
	UnfinAtCb int    `json:"unfinished_at_cb"`
	Panic     bool   `json:"panic"`
	Hang      bool   `json:"hang"`
	Tails     int    `json:"tails"`
}

func runTree(t *tree, r *vh.Rand) result {
	ctx := context.Background()
	pool := stagepkg.VerifNewPool("verif-c19", 8)
	defer pool.Stop()
	c := &ctrl{wake: make(chan struct{}, 1)}
	mk := func(async bool, id string, n stagepkg.PlanNode) *stagepkg.VerifStage {
		if async {
			return stagepkg.VerifNewStage(ctx, pool, id, n)
		}
		return stagepkg.VerifNewStage(ctx, nil, id, n)
	}
	root := build(ctx, c, pool, t, "r", mk)
	cbCh := make(chan struct{}, 4)
	p := query.NewExecutePipeline(trackerpkg.NewStageTracker(flow.NewTaskContextWithTimeout(ctx, time.Minute)), func(err error) {
		c.mu.Lock()
		if len(c.cbs) == 0 {
			c.unfinAtCb = int(atomic.LoadInt32(&c.started) - atomic.LoadInt32(&c.completed))
			if c.unfinAtCb < 0 { // more completions than started stages (a stage completed twice): keep it a nat, still non-zero
				c.unfinAtCb = -c.unfinAtCb
			}
		}
		c.cbs = append(c.cbs, err == nil)
		c.mu.Unlock()
		cbCh <- struct{}{}
	})
	done := make(chan struct{})
	go func() {
		defer close(done)
		p.Execute(root)
	}()
	// controller: release waiting nodes in PRNG order until the callback has fired and nothing is waiting
	deadline := time.Now().Add(3 * time.Second)
	idle := 0
	gotCb := false
	for {
		c.mu.Lock()
		var pick *node
		if len(c.waiting) > 0 {
			// prefer to let several nodes pile up so that the order is a real choice
			i := r.Intn(len(c.waiting))
			pick = c.waiting[i]
			c.waiting = append(c.waiting[:i], c.waiting[i+1:]...)
		}
		c.mu.Unlock()
		if pick != nil {
			if r.Chance(50) {
				time.Sleep(200 * time.Microsecond) // give other goroutines a chance to arrive at their gate
			}
			close(pick.release)
			idle = 0
			continue
		}
		select {
		case <-cbCh:
			gotCb = true
		case <-c.wake:
		case <-time.After(2 * time.Millisecond):
			idle++
		}
		if gotCb && idle >= 2 {
			break
		}
		if time.Now().After(deadline) {
			break
		}
		if !gotCb && idle > 400 { // ~0.8 s without progress and without a callback: hang
			break
		}
	}
	select {
	case <-done:
	case <-time.After(time.Second):
	}
	time.Sleep(time.Millisecond)
	c.mu.Lock()
	defer c.mu.Unlock()
	return result{Cbs: append([]bool{}, c.cbs...), Completed: int(atomic.LoadInt32(&c.completed)),
		Failed: atomic.LoadInt32(&c.failed) > 0, UnfinAtCb: c.unfinAtCb, Panic: atomic.LoadInt32(&c.panicked) > 0, Hang: !gotCb, Tails: int(atomic.LoadInt32(&c.tails))}
}

// enumerate all trees with exactly n stages over outcomes x async (small n only)
// outcomes of the exhaustive trees (the three kinds around "not found" come in through the random trees and the
// two-stage trees below)
var exhOutcomes = []int{0, 1, 2, 3}

func enumTrees(n int) []*tree {
	var res []*tree
	for _, forest := range enumForests(n - 1) {
		for _, o := range exhOutcomes {
			for a := 0; a < 2; a++ {
				res = append(res, &tree{O: o, Async: a == 1, Next: forest})
			}
		}
	}
	return res
}
func enumForests(n int) [][]*tree {
	if n == 0 {
		return [][]*tree{nil}
	}
	var res [][]*tree
	for k := 1; k <= n; k++ {
		for _, first := range enumTrees(k) {
			for _, rest := range enumForests(n - k) {
				res = append(res, append([]*tree{first}, rest...))
			}
		}
	}
	return res
}

func genTree(r *vh.Rand, depth, budget int) *tree {
	t := &tree{Async: r.Chance(45)}
	switch x := r.Intn(100); {
	case x < 70:
		t.O = 0
	case x < 80:
		t.O = 1
	case x < 85:
		t.O = 2
	case x < 89:
		t.O = 3
	case x < 93:
		t.O = 4
	case x < 96:
		t.O = 5
	default:
		t.O = 6
	}
	if depth > 0 {
		k := r.Intn(4)
		for i := 0; i < k && budget > 0; i++ {
			c := genTree(r, depth-1, budget/2)
			budget -= c.size()
			t.Next = append(t.Next, c)
		}
	}
	return t
}

func nontrivial(t *tree) bool {
	// >= 3 stages with >= 1 async and >= 1 failing/panicking stage that is not the last to finish (approximated:
	// a failing stage that is not the last child of the root-most list)
	n, async, fail := 0, false, false
	var walk func(t *tree)
	walk = func(t *tree) {
		n++
		if t.Async {
			async = true
		}
		if t.O != 0 && t.O != 4 {
			fail = true
		}
		if t.O == 0 || t.O == 4 {
			for _, c := range t.Next {
				walk(c)
			}
		}
	}
	walk(t)
	return n >= 3 && async && fail
}

func main() {
	cfg := vh.ParseFlags()
	r := vh.NewRand(cfg.Seed)
	out := vh.NewOut(cfg.Out, "From Coq Require Import List Bool Arith.\nImport ListNotations.\nFrom LinDBV.C19 Require Import Model Leaf Check.\n")
	var trees []*tree
	// exhaustive small trees (<= 3 stages: 8 + 64 + 1024 = 1096 trees), each under one PRNG-chosen completion order
	maxExh := 3
	for n := 1; n <= maxExh; n++ {
		trees = append(trees, enumTrees(n)...)
	}
	out.CountN("exhaustive_trees_le_3_stages", len(trees))
	// all trees of up to 2 stages over all seven outcomes
	exhOutcomes = []int{0, 1, 2, 3, 4, 5, 6}
	for n := 1; n <= 2; n++ {
		trees = append(trees, enumTrees(n)...)
	}
	exhOutcomes = []int{0, 1, 2, 3}
	for i := 0; i < cfg.N; i++ {
		trees = append(trees, genTree(r, 3, 12))
	}
	for _, t := range trees {
		reps := 1
		if t.size() >= 3 && cfg.Tier == "thorough" {
			reps = 3
		}
		for k := 0; k < reps; k++ {
			res := runTree(t, r)
			idx := out.Case(map[string]interface{}{"tree": t, "rep": k, "observed": res}, nontrivial(t))
			out.Count(fmt.Sprintf("stages:%d", t.size()))
			if res.Panic {
				out.Count("runs_with_panic")
			}
			if res.Failed {
				out.Count("runs_with_failure")
			}
			var cbs []string
			for _, b := range res.Cbs {
				cbs = append(cbs, vh.Bool(b))
			}
			out.Check(idx, fmt.Sprintf("check %s {| cbs := %s; completed := %d; failed_seen := %s; unfinished_at_cb := %d; any_panic := %s; hang := %s; tails := %d |}",
				t.coq(), vh.List(cbs), res.Completed, vh.Bool(res.Failed), res.UnfinAtCb, vh.Bool(res.Panic), vh.Bool(res.Hang), res.Tails))
		}
	}
	leafRequests(out, r, cfg.N/6+4)
	rootRequests(out, r, cfg.N/3+10)
	out.Finish()
}
