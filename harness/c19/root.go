// C19 harness, third part: the request as its sender sees it.  query.MetricMetadataSearch at a broker (real exec: request,
// tracker, task manager registration, pipeline with the physical-plan stage and one send stage per target, WaitResponse)
// against 2-4 leaves running the real leaf task processor over the engine of leaf.go; the transport hands a request to the
// leaf and the leaf's response to the broker's task manager either inside SendRequest (a leaf in the same process, a
// fast loop-back stream: the response is there before the requests to the later targets are sent) or a moment later.
// Observed: the one outcome of the search - the values of all leaves, or an error.
package main

import (
	"context"
	"fmt"
	"sort"
	"strings"
	"sync"
	"time"

	"github.com/lindb/lindb/flow"
	"github.com/lindb/lindb/models"
	protoCommonV1 "github.com/lindb/lindb/proto/gen/v1/common"
	"github.com/lindb/lindb/query"
	"github.com/lindb/lindb/rpc"
	"github.com/lindb/lindb/sql/stmt"

	"lindbverif/vh"
)

type rootLeaf struct {
	name string
	proc query.TaskProcessor
	sync bool
}

type rootTransport struct {
	receiver query.TaskManager
	leaves   map[string]*rootLeaf
	mu       sync.Mutex
	refused  []string
	wg       sync.WaitGroup
}

// the leaf's stream to the broker: a response sent is handed to the broker's task manager at once
type rootStream struct {
	protoCommonV1.TaskService_HandleServer
	t    *rootTransport
	from string
}

func (s *rootStream) Send(resp *protoCommonV1.TaskResponse) error {
	if err := s.t.receiver.Receive(resp, s.from); err != nil {
		s.t.mu.Lock()
		s.t.refused = append(s.t.refused, fmt.Sprintf("%s: %v", s.from, err))
		s.t.mu.Unlock()
	}
	return nil
}
func (s *rootStream) Context() context.Context { return context.Background() }

func (t *rootTransport) SendRequest(target string, req *protoCommonV1.TaskRequest) error {
	l := t.leaves[target]
	if l == nil {
		return fmt.Errorf("no such node %s", target)
	}
	run := func() {
		stream := &rootStream{t: t, from: target}
		taskCtx := flow.NewTaskContextWithTimeout(context.Background(), 10*time.Second)
		if err := l.proc.Process(taskCtx, stream, req); err != nil {
			_ = stream.Send(&protoCommonV1.TaskResponse{RequestID: req.RequestID, Completed: true, ErrMsg: err.Error()})
		}
	}
	if l.sync {
		run()
		// the broker's task manager hands a received response to its worker pool: give the worker the moment it needs, so
		// that the response is handled before the next request is sent
		time.Sleep(2 * time.Millisecond)
		return nil
	}
	t.wg.Add(1)
	go func() {
		defer t.wg.Done()
		time.Sleep(3 * time.Millisecond)
		run()
	}()
	return nil
}
func (t *rootTransport) SendResponse(string, *protoCommonV1.TaskResponse) error { return nil }

type rootChooser struct{ targets []string }

func (c rootChooser) Choose(database string, _ int) ([]*models.PhysicalPlan, error) {
	plan := &models.PhysicalPlan{Database: database}
	for i, t := range c.targets {
		plan.AddTarget(&models.Target{Indicator: t, ShardIDs: []models.ShardID{models.ShardID(i + 1)}})
	}
	return []*models.PhysicalPlan{plan}, nil
}

func rootRequests(out *vh.Out, r *vh.Rand, n int) {
	taskMgr := query.VerifNewTaskManager("verif-c19-root", 2)
	for i := 0; i < n; i++ {
		nl := r.Range(2, 4)
		tr := &rootTransport{receiver: taskMgr, leaves: map[string]*rootLeaf{}}
		var targets []string
		var syncs []bool
		for j := 0; j < nl; j++ {
			node := &models.StatelessNode{HostIP: fmt.Sprintf("10.0.%d.%d", i%200, j+1), GRPCPort: 2891}
			l := &rootLeaf{name: node.Indicator(), sync: r.Chance(50),
				proc: query.NewLeafTaskProcessor(node, &leafEngine{db: &leafDB{meta: &leafMetaDB{}}}, rpc.NewTaskServerFactory())}
			tr.leaves[l.name] = l
			targets = append(targets, l.name)
			syncs = append(syncs, l.sync)
		}
		kind := 0 // 0 ok, 1 the leaves' stage fails, 2 not found
		switch x := r.Intn(10); {
		case x < 2:
			kind = 1
		case x < 3:
			kind = 2
		}
		prefix := fmt.Sprintf("%s%d", []string{"ok", "fail", "nf"}[kind], i)
		ctx, cancel := context.WithTimeout(context.Background(), 3*time.Second)
		rs, err := query.MetricMetadataSearch(ctx,
			&models.ExecuteParam{Database: "db", SQL: "show namespaces"},
			&stmt.MetricMetadata{Type: stmt.Namespace, Prefix: prefix},
			&query.SearchMgr{Timeout: 3 * time.Second, CurNode: models.StatelessNode{HostIP: "10.9.9.9", GRPCPort: 9001},
				Choose: rootChooser{targets: targets}, TaskMgr: taskMgr, TransportMgr: tr})
		cancel()
		tr.wg.Wait()
		var values []string
		if err == nil && rs != nil {
			values, _ = rs.([]string)
			sort.Strings(values)
		}
		errText := ""
		if err != nil {
			errText = err.Error()
		}
		tr.mu.Lock()
		refused := append([]string(nil), tr.refused...)
		tr.mu.Unlock()
		idx := out.Case(map[string]interface{}{"kind": "root-request", "leaves": nl, "answer_inside_send": syncs, "outcome_of_the_leaves": []string{"ok", "fail", "not-found"}[kind],
			"values": values, "err": errText, "refused_responses": refused}, nl >= 3)
		out.Count("root-request:" + []string{"ok", "fail", "not-found"}[kind])
		// after a leaf's error the broker answers at once and forgets the request: the answers of the other leaves are refused
		if len(refused) > 0 && kind != 1 {
			out.Violation(idx, "response-refused", "a leaf's one response was refused by the broker's task manager: "+strings.Join(refused, "; "), nil)
		}
		// the raw answer is the concatenation of the leaves' values (de-duplication happens when the result set is built)
		var want []string
		for range targets {
			want = append(want, prefix+"-1", prefix+"-2")
		}
		sort.Strings(want)
		if kind == 0 && err == nil && strings.Join(values, ",") != strings.Join(want, ",") {
			out.Violation(idx, "answer-incomplete", fmt.Sprintf("values %v", values), nil)
		}
		leafOutcome := []string{"Ok", "Err", "NotFoundPlain"}[kind]
		var kids []string
		for range targets {
			kids = append(kids, fmt.Sprintf("Stage %s false []", leafOutcome))
		}
		// the request as a tree: the broker's plan stage with one stage per leaf; "not found" of the leaves is an empty answer
		out.Check(idx, fmt.Sprintf("check_leaf (Piped (Stage Ok false %s) %s) %s", vh.List(kids), vh.Bool(kind == 2), vh.List([]string{vh.Bool(err == nil)})))
	}
}
