package main

import (
	"bytes"
	"fmt"
	"math"
	"os"
	"path/filepath"
	"sort"
	"time"

	"github.com/lindb/roaring"

	"github.com/lindb/lindb/index/model"
	v1 "github.com/lindb/lindb/index/v1"
	kvpkg "github.com/lindb/lindb/kv"

	"lindbverif/vh"
)

// buckets of a real dictionary family: every file holds one dictionary per bucket; the buckets are read over all files
// (model.TrieBucket with several tries), then the family is compacted (IndexKVMerger -> TrieBucket.Write) and read again.

func observeBucket(b *model.TrieBucket, probes [][]byte, prefixes [][]byte, limits []int, ids []uint32) string {
	var gs []string
	for _, p := range probes {
		v, ok := b.GetValue(p)
		gs = append(gs, vh.Pair(kcoq(p), optV(ok, v)))
	}
	vals := b.GetValues()
	sort.Slice(vals, func(i, j int) bool { return vals[i] < vals[j] })
	var vs []string
	for _, v := range vals {
		vs = append(vs, fmt.Sprintf("%d", v))
	}
	var ss []string
	for i, p := range prefixes {
		lim := limits[i%len(limits)]
		rs := b.Suggest(string(p), lim)
		var ks [][]byte
		for _, s := range rs {
			ks = append(ks, []byte(s))
		}
		ss = append(ss, fmt.Sprintf("(%s, %d, %s)", kcoq(p), lim, keysCoq(ks)))
	}
	want := roaring.New()
	want.AddMany(ids)
	got := map[uint32]string{}
	b.CollectKVs(want, got)
	var cs []string
	for _, id := range ids {
		if k, ok := got[id]; ok {
			cs = append(cs, fmt.Sprintf("(%d, Some %s)", id, kcoq([]byte(k))))
		} else {
			cs = append(cs, fmt.Sprintf("(%d, None)", id))
		}
	}
	return fmt.Sprintf("{| b_gets := %s; b_values := %s; b_suggest := %s; b_collect := %s |}",
		vh.List(gs), vh.List(vs), vh.List(ss), vh.List(cs))
}

// files[f][b] = the dictionary of bucket b in file f (sorted, keys distinct over the files of one bucket, values
// distinct over everything)
func runBuckets(out *vh.Out, root string, id int, files [][][]kv, r *vh.Rand) {
	dir := filepath.Join(root, fmt.Sprintf("bk%d", id))
	defer os.RemoveAll(dir)
	nb := len(files[0])
	out.Count("bucket-families")
	fail := func(what string, err error) {
		idx := out.Case(map[string]interface{}{"kind": "buckets", "files": files}, false)
		out.Violation(idx, "bucket-failure", what+": "+err.Error(), nil)
	}
	st, err := kvpkg.GetStoreManager().CreateStore(dir, kvpkg.DefaultStoreOption())
	if err != nil {
		fail("open", err)
		return
	}
	defer func() { _ = kvpkg.GetStoreManager().CloseStore(dir) }()
	fam, err := st.CreateFamily("names", kvpkg.FamilyOption{Merger: string(v1.IndexKVMerger), CompactThreshold: 2})
	if err != nil {
		fail("family", err)
		return
	}
	flushFile := func(f [][]kv) bool {
		empty := true
		for _, d := range f {
			if len(d) > 0 {
				empty = false
			}
		}
		if empty {
			return true
		}
		kvFlusher := fam.NewFlusher()
		defer kvFlusher.Release()
		fl, err := v1.NewIndexKVFlusher(math.MaxInt16, kvFlusher)
		if err != nil {
			fail("flusher", err)
			return false
		}
		for b, d := range f {
			if len(d) == 0 {
				continue
			}
			var keys [][]byte
			var ids []uint32
			for _, e := range d {
				keys = append(keys, append([]byte(nil), e.K...))
				ids = append(ids, e.V)
			}
			fl.PrepareBucket(uint32(b + 1))
			if err := fl.WriteKVs(keys, ids); err != nil {
				fail("write", err)
				return false
			}
			if err := fl.CommitBucket(); err != nil {
				fail("commit bucket", err)
				return false
			}
		}
		if err := fl.Close(); err != nil {
			fail("close flusher", err)
			return false
		}
		return true
	}
	for _, f := range files {
		if !flushFile(f) {
			return
		}
	}
	// per bucket: probes (present keys of any bucket, prefixes, extensions), prefixes with limits, ids to collect
	type plan struct {
		probes, prefixes [][]byte
		ids              []uint32
	}
	plans := make([]plan, nb)
	for b := 0; b < nb; b++ {
		var all []kv
		for _, f := range files {
			all = append(all, f[b]...)
		}
		var other []kv
		for _, f := range files {
			other = append(other, f[(b+1)%nb]...)
		}
		p := &plans[b]
		for _, e := range all {
			p.probes = append(p.probes, e.K)
			if len(e.K) > 0 && r.Chance(40) {
				p.probes = append(p.probes, e.K[:len(e.K)-1])
				p.prefixes = append(p.prefixes, e.K[:r.Intn(len(e.K)+1)])
			}
			if r.Chance(60) {
				p.ids = append(p.ids, e.V)
			}
		}
		for _, e := range other { // keys and values of the neighbour bucket must stay absent here
			if r.Chance(50) {
				p.probes = append(p.probes, e.K)
				p.ids = append(p.ids, e.V)
			}
		}
		p.prefixes = append(p.prefixes, []byte{}, []byte("a"), []byte("ab"), []byte{byte('p' + b)}, []byte{byte('p' + b), 'a'}, []byte{byte('p' + b), 'a', 'b'})
		p.ids = append(p.ids, 999999)
	}
	limits := []int{1, 2, 3, 5, 100}
	observe := func() ([]string, bool) {
		snap := fam.GetSnapshot()
		defer snap.Close()
		rd := v1.NewIndexKVReader(snap)
		var obs []string
		for b := 0; b < nb; b++ {
			bucket, err := rd.GetBucket(uint32(b + 1))
			if err != nil {
				fail("get bucket", err)
				return nil, false
			}
			if bucket == nil {
				bucket = model.NewTrieBucket()
			}
			obs = append(obs, observeBucket(bucket, plans[b].probes, plans[b].prefixes, limits, plans[b].ids))
			bucket.Release()
		}
		return obs, true
	}
	before, ok := observe()
	if !ok {
		return
	}
	fam.Compact()
	time.Sleep(2 * time.Millisecond)
	kvpkg.VerifWaitBackground(fam)
	after, ok := observe()
	if !ok {
		return
	}
	for b := 0; b < nb; b++ {
		var ds []string
		for _, f := range files {
			if len(f[b]) == 0 {
				continue
			}
			var es []string
			for _, e := range f[b] {
				es = append(es, entCoq(e.K, e.V))
			}
			ds = append(ds, vh.List(es))
		}
		// every bucket of the family is one case
		idx := out.Case(map[string]interface{}{"kind": "bucket", "bucket": b + 1, "files": files}, len(ds) >= 2)
		out.Count(fmt.Sprintf("bucket:dictionaries:%d", len(ds)))
		out.Check(idx, fmt.Sprintf("check_bucket %s\n %s\n %s", vh.List(ds), before[b], after[b]))
	}
}

func genBucketFiles(r *vh.Rand) [][][]kv {
	nf, nb := r.Range(1, 4), r.Range(1, 3)
	used := map[string]bool{}
	nextV := uint32(r.Range(1, 50))
	files := make([][][]kv, nf)
	for f := range files {
		files[f] = make([][]kv, nb)
		for b := 0; b < nb; b++ {
			if nf > 1 && r.Chance(15) {
				continue // this file does not hold the bucket
			}
			alpha := []byte("ab1.")
			var d []kv
			for n := r.Range(1, 8); n > 0; n-- {
				// keys of different buckets never coincide (first byte), so that a dictionary contaminated with another
				// bucket's pairs can still be built and is seen as such
				k := []byte{byte('p' + b)}
				if r.Chance(50) {
					k = append(k, 'a', 'b')
				}
				for l := r.Intn(4); l > 0; l-- {
					k = append(k, alpha[r.Intn(len(alpha))])
				}
				tag := fmt.Sprintf("%d/%s", b, k)
				if used[tag] {
					continue
				}
				used[tag] = true
				d = append(d, kv{k, nextV})
				nextV += uint32(r.Range(1, 3))
			}
			sort.Slice(d, func(i, j int) bool { return bytes.Compare(d[i].K, d[j].K) < 0 })
			if len(d) == 1 && len(d[0].K) == 0 {
				d = nil // a dictionary of the empty key alone cannot be built (known finding C20:single-empty-key)
			}
			files[f][b] = d
		}
	}
	return files
}

func bucketCases(out *vh.Out, r *vh.Rand, n int) {
	root, err := os.MkdirTemp("", "verif-c20-")
	if err != nil {
		panic(err)
	}
	defer os.RemoveAll(root)
	k := func(s string, v uint32) kv { return kv{[]byte(s), v} }
	// two files, keys interleaving under one prefix (the merged enumeration has to compare keys of both)
	runBuckets(out, root, 0, [][][]kv{
		{{k("ab1", 1), k("ab2", 2), k("ab3", 3), k("b", 4)}, {k("zone-1", 50)}},
		{{k("ab0", 5), k("ab25", 6), k("c", 7)}, {k("zone-2", 51), k("zone-3", 52)}},
	}, r)
	for i := 0; i < n; i++ {
		runBuckets(out, root, i+1, genBucketFiles(r), r)
	}
	for i := 0; i < n/2+4; i++ {
		runBlockBuckets(out, r)
	}
	runBigBucket(out, root, r)
}

// buckets whose dictionaries are split into several tries (small block sizes, so that "a full trie", "the lone small trie"
// and "several small tries" all occur with a handful of keys): built with model.TrieBucketBuilder, read, rewritten by
// TrieBucket.Write (what the merger does, also when only one file holds the bucket) and read again - twice, because what
// one rewrite produces is the input of the next compaction.
func runBlockBuckets(out *vh.Out, r *vh.Rand) {
	bs := r.Range(2, 6)
	nd := r.Range(1, 3)
	used := map[string]bool{}
	nextV := uint32(r.Range(1, 50))
	var dicts [][]kv
	for d := 0; d < nd; d++ {
		var dd []kv
		for n := r.Range(1, 14); n > 0; n-- {
			k := []byte{'p'}
			if r.Chance(50) {
				k = append(k, 'a', 'b')
			}
			for l := r.Range(1, 4); l > 0; l-- {
				k = append(k, []byte("ab1.")[r.Intn(4)])
			}
			if used[string(k)] {
				continue
			}
			used[string(k)] = true
			dd = append(dd, kv{k, nextV})
			nextV += uint32(r.Range(1, 3))
		}
		if len(dd) == 0 {
			continue
		}
		sort.Slice(dd, func(i, j int) bool { return bytes.Compare(dd[i].K, dd[j].K) < 0 })
		dicts = append(dicts, dd)
	}
	if len(dicts) == 0 {
		return
	}
	fail := func(what string, err error) {
		idx := out.Case(map[string]interface{}{"kind": "block-bucket", "block_size": bs, "dictionaries": dicts}, false)
		out.Violation(idx, "bucket-failure", what+": "+err.Error(), nil)
	}
	var values [][]byte
	for _, dd := range dicts {
		var buf bytes.Buffer
		var keys [][]byte
		var ids []uint32
		for _, e := range dd {
			keys = append(keys, append([]byte(nil), e.K...))
			ids = append(ids, e.V)
		}
		if err := model.NewTrieBucketBuilder(bs, &buf).Write(keys, ids); err != nil {
			fail("build", err)
			return
		}
		values = append(values, buf.Bytes())
	}
	load := func(vals [][]byte) (*model.TrieBucket, bool) {
		b := model.NewTrieBucketWithBlockSize(bs)
		for _, v := range vals {
			if err := b.Unmarshal(v); err != nil {
				fail("unmarshal", err)
				return nil, false
			}
		}
		return b, true
	}
	var probes, prefixes [][]byte
	var ids []uint32
	for _, dd := range dicts {
		for _, e := range dd {
			probes = append(probes, e.K)
			if r.Chance(40) {
				probes = append(probes, e.K[:len(e.K)-1])
				prefixes = append(prefixes, e.K[:r.Intn(len(e.K)+1)])
			}
			if r.Chance(60) {
				ids = append(ids, e.V)
			}
		}
	}
	prefixes = append(prefixes, []byte{}, []byte("p"), []byte("pa"), []byte("pab"))
	ids = append(ids, 999999)
	limits := []int{1, 2, 3, 5, 100}
	b1, ok := load(values)
	if !ok {
		return
	}
	before := observeBucket(b1, probes, prefixes, limits, ids)
	cur := values
	rewrites := r.Range(1, 3)
	for i := 0; i < rewrites; i++ {
		b, ok := load(cur)
		if !ok {
			return
		}
		var buf bytes.Buffer
		if err := b.Write(&buf); err != nil {
			fail("write", err)
			return
		}
		b.Release()
		cur = [][]byte{append([]byte(nil), buf.Bytes()...)}
	}
	b2, ok := load(cur)
	if !ok {
		return
	}
	after := observeBucket(b2, probes, prefixes, limits, ids)
	b1.Release()
	b2.Release()
	var ds []string
	total := 0
	for _, dd := range dicts {
		var es []string
		for _, e := range dd {
			es = append(es, entCoq(e.K, e.V))
		}
		total += len(dd)
		ds = append(ds, vh.List(es))
	}
	idx := out.Case(map[string]interface{}{"kind": "block-bucket", "block_size": bs, "dictionaries": dicts, "rewrites": rewrites}, total > bs && rewrites >= 2)
	out.Count(fmt.Sprintf("block-bucket:rewrites:%d", rewrites))
	out.Check(idx, fmt.Sprintf("check_bucket %s\n %s\n %s", vh.List(ds), before, after))
}

// one bucket of 70000 keys in a real dictionary family (the flusher splits it at 32767 keys, the merger at 65535), a second
// bucket in later files so that two compactions run in which only one file holds the big bucket; judged directly (the
// model's evaluation of 70000 pairs is not worth its time): the number of values, sampled exact lookups, and prefix
// enumerations with limits against the sorted key list.
func runBigBucket(out *vh.Out, root string, r *vh.Rand) {
	dir := filepath.Join(root, "bigbucket")
	defer os.RemoveAll(dir)
	idx := out.Case(map[string]interface{}{"kind": "big-bucket", "keys": 70000}, true)
	out.Count("big-bucket")
	defer out.Check(idx, "(0%nat, 0%nat)")
	bad := func(what string) { out.Violation(idx, "big-bucket", what, nil) }
	st, err := kvpkg.GetStoreManager().CreateStore(dir, kvpkg.DefaultStoreOption())
	if err != nil {
		bad("open: " + err.Error())
		return
	}
	defer func() { _ = kvpkg.GetStoreManager().CloseStore(dir) }()
	fam, err := st.CreateFamily("names", kvpkg.FamilyOption{Merger: string(v1.IndexKVMerger), CompactThreshold: 2})
	if err != nil {
		bad("family: " + err.Error())
		return
	}
	flush := func(bucket uint32, keys [][]byte, ids []uint32) bool {
		kvFlusher := fam.NewFlusher()
		defer kvFlusher.Release()
		fl, err := v1.NewIndexKVFlusher(math.MaxInt16, kvFlusher)
		if err != nil {
			bad("flusher: " + err.Error())
			return false
		}
		fl.PrepareBucket(bucket)
		if err := fl.WriteKVs(keys, ids); err != nil {
			bad("write: " + err.Error())
			return false
		}
		if err := fl.CommitBucket(); err != nil {
			bad("commit bucket: " + err.Error())
			return false
		}
		if err := fl.Close(); err != nil {
			bad("close: " + err.Error())
			return false
		}
		return true
	}
	const n = 70000
	var keys [][]byte
	var ids []uint32
	for i := 0; i < n; i++ {
		keys = append(keys, []byte(fmt.Sprintf("host-%06d", i)))
		ids = append(ids, uint32(i+1))
	}
	judge := func(stage string) bool {
		snap := fam.GetSnapshot()
		defer snap.Close()
		b, err := v1.NewIndexKVReader(snap).GetBucket(1)
		if err != nil || b == nil {
			bad(fmt.Sprintf("%s: get bucket: %v", stage, err))
			return false
		}
		defer b.Release()
		if got := len(b.GetValues()); got != n {
			bad(fmt.Sprintf("%s: the bucket holds %d values, %d pairs were written", stage, got, n))
			return false
		}
		for j := 0; j < 200; j++ {
			i := r.Intn(n)
			if v, ok := b.GetValue(keys[i]); !ok || v != ids[i] {
				bad(fmt.Sprintf("%s: GetValue(%s) = %d, %v; written %d", stage, keys[i], v, ok, ids[i]))
				return false
			}
		}
		for _, pl := range []struct {
			p   string
			lim int
		}{{"host-0000", 5}, {"host-03276", 30}, {"host-0655", 40}, {"host-06999", 100}, {"host-", 3}} {
			var want []string
			for i := 0; i < n && len(want) < pl.lim; i++ {
				if bytes.HasPrefix(keys[i], []byte(pl.p)) {
					want = append(want, string(keys[i]))
				}
			}
			got := b.Suggest(pl.p, pl.lim)
			if fmt.Sprint(got) != fmt.Sprint(want) {
				bad(fmt.Sprintf("%s: Suggest(%q, %d) = %v, the sorted map gives %v", stage, pl.p, pl.lim, got, want))
				return false
			}
		}
		return true
	}
	if !flush(1, keys, ids) || !judge("one file") {
		return
	}
	for round := 1; round <= 2; round++ {
		// two more files (Compact starts a job with two or more level-0 files), neither of which holds bucket 1
		for k := 0; k < 2; k++ {
			if !flush(2, [][]byte{[]byte(fmt.Sprintf("zone-%d-%d", round, k))}, []uint32{uint32(900000 + 10*round + k)}) {
				return
			}
		}
		fam.Compact()
		time.Sleep(2 * time.Millisecond)
		kvpkg.VerifWaitBackground(fam)
		if !judge(fmt.Sprintf("after compaction %d (only one file holds the bucket)", round)) {
			return
		}
	}
}
