// C20 harness: real trie builder / succinct trie / iterators on generated key sets; the builder's
// level vectors, lookups, iteration, seek and prefix enumeration are handed to the model.
package main

import (
	"bytes"
	"fmt"
	"sort"

	"github.com/lindb/lindb/pkg/trie"

	"lindbverif/vh"
)

func kcoq(k []byte) string { return vh.Bytes(k) }
func optV(ok bool, v uint32) string {
	if !ok {
		return "None"
	}
	return fmt.Sprintf("(Some %d)", v)
}

type kv struct {
	K []byte
	V uint32
}

func genKeys(r *vh.Rand, maxN int) []kv {
	alpha := [][]byte{
		{'a', 'b', 'c'},
		{0x00, 0xFF, 'a'},
		{'a', 'b', 'c', 'd', 'e', 'f', 'g', 'h', '1', '2', '.', '/'},
		{0xFE, 0xFF, 0x00, 0x01},
	}[r.Intn(4)]
	n := r.Range(1, maxN)
	maxLen := r.Range(1, 7)
	set := map[string]bool{}
	var base [][]byte
	for len(set) < n {
		var k []byte
		switch r.Intn(5) {
		case 0: // extension of an existing key (prefix chains)
			if len(base) > 0 {
				k = append([]byte(nil), base[r.Intn(len(base))]...)
				k = append(k, alpha[r.Intn(len(alpha))])
			}
		case 1: // proper prefix of an existing key
			if len(base) > 0 {
				b := base[r.Intn(len(base))]
				k = append([]byte(nil), b[:r.Intn(len(b)+1)]...)
			}
		case 2: // shared suffix
			k = append([]byte{alpha[r.Intn(len(alpha))]}, []byte("tail")...)
		default:
			l := r.Intn(maxLen + 1)
			for i := 0; i < l; i++ {
				k = append(k, alpha[r.Intn(len(alpha))])
			}
		}
		if r.Chance(3) {
			k = []byte{}
		}
		if !set[string(k)] {
			set[string(k)] = true
			base = append(base, k)
		}
		if len(set) >= 1 && r.Chance(2) {
			break
		}
	}
	var out []kv
	for _, k := range base {
		out = append(out, kv{k, uint32(r.Intn(1000))})
	}
	sort.Slice(out, func(i, j int) bool { return bytes.Compare(out[i].K, out[j].K) < 0 })
	return out
}

func entCoq(k []byte, v uint32) string { return vh.Pair(kcoq(k), fmt.Sprintf("%d", v)) }

func boolsCoq(bs []bool) string {
	xs := make([]string, len(bs))
	for i, b := range bs {
		xs[i] = vh.Bool(b)
	}
	return vh.List(xs)
}
func keysCoq(ks [][]byte) string {
	xs := make([]string, len(ks))
	for i, k := range ks {
		xs[i] = kcoq(k)
	}
	return vh.List(xs)
}

type caseResult struct {
	levels, gets, getsLoaded, iter, seeks, prefix string
	err                                           string
}

func runCase(kvs []kv, probes [][]byte, prefixes [][]byte) (res caseResult) {
	defer func() {
		if r := recover(); r != nil {
			res.err = fmt.Sprintf("panic: %v", r)
		}
	}()
	var keys [][]byte
	var vals []uint32
	for _, e := range kvs {
		keys = append(keys, e.K)
		vals = append(vals, e.V)
	}
	b := trie.NewBuilder()
	b.Build(keys, vals)
	var lv []string
	for _, l := range trie.VerifDumpLevels(b) {
		var vs []string
		for _, v := range l.Values {
			vs = append(vs, fmt.Sprintf("%d", v))
		}
		lv = append(lv, fmt.Sprintf("{| l_labels := %s; l_haschild := %s; l_louds := %s; l_hasprefix := %s; l_prefixes := %s; l_hassuffix := %s; l_suffixes := %s; l_values := %s |}",
			vh.Bytes(l.Labels), boolsCoq(l.HasChild), boolsCoq(l.Louds), boolsCoq(l.HasPrefix), keysCoq(l.Prefixes), boolsCoq(l.HasSuffix), keysCoq(l.Suffixes), vh.List(vs)))
	}
	res.levels = vh.List(lv)
	t := b.Trie()
	var gs []string
	for _, p := range probes {
		v, ok := t.Get(p)
		gs = append(gs, vh.Pair(kcoq(p), optV(ok, v)))
	}
	res.gets = vh.List(gs)
	// serialise and load again
	var buf bytes.Buffer
	if err := b.Write(&buf); err != nil {
		res.err = "write: " + err.Error()
		return
	}
	if buf.Len() != b.MarshalSize() {
		res.err = fmt.Sprintf("MarshalSize %d, written %d", b.MarshalSize(), buf.Len())
		return
	}
	t2 := trie.NewTrie()
	if err := t2.UnmarshalBinary(buf.Bytes()); err != nil {
		res.err = "unmarshal: " + err.Error()
		return
	}
	gs = nil
	for _, p := range probes {
		v, ok := t2.Get(p)
		gs = append(gs, vh.Pair(kcoq(p), optV(ok, v)))
	}
	res.getsLoaded = vh.List(gs)
	// ordered iteration (on the loaded trie)
	var its []string
	it := t2.NewIterator()
	it.SeekToFirst()
	for n := 0; it.Valid() && n < len(kvs)+3; n++ {
		its = append(its, entCoq(append([]byte(nil), it.Key()...), it.Value()))
		it.Next()
	}
	res.iter = vh.List(its)
	// seek
	var sk []string
	for _, p := range probes {
		it2 := t.NewIterator()
		it2.Seek(p)
		if it2.Valid() {
			sk = append(sk, vh.Pair(kcoq(p), "(Some "+entCoq(append([]byte(nil), it2.Key()...), it2.Value())+")"))
		} else {
			sk = append(sk, vh.Pair(kcoq(p), "None"))
		}
	}
	res.seeks = vh.List(sk)
	// prefix enumeration
	var ps []string
	for _, p := range prefixes {
		pit := t.NewPrefixIterator(p)
		var es []string
		for n := 0; pit.Valid() && n < len(kvs)+3; n++ {
			es = append(es, entCoq(append([]byte(nil), pit.Key()...), pit.Value()))
			pit.Next()
		}
		ps = append(ps, vh.Pair(kcoq(p), vh.List(es)))
	}
	res.prefix = vh.List(ps)
	return
}

func main() {
	cfg := vh.ParseFlags()
	r := vh.NewRand(cfg.Seed)
	out := vh.NewOut(cfg.Out, "From Coq Require Import List Arith Bool.\nImport ListNotations.\nFrom LinDBV.C20 Require Import Model Check.\n")
	out.ShardSize = 12
	corpus := [][]kv{
		{{[]byte(""), 7}},
		{{[]byte(""), 1}, {[]byte("a"), 2}},
		{{[]byte("a"), 1}},
		{{[]byte{0xFF}, 1}, {[]byte{0xFF, 0xFF}, 2}},
		{{[]byte{0x00}, 1}, {[]byte{0x00, 0x00}, 2}, {[]byte{0xFF}, 3}},
	}
	for i := 0; i < cfg.N+len(corpus); i++ {
		var kvs []kv
		if i < len(corpus) {
			kvs = corpus[i]
		} else {
			kvs = genKeys(r, 40)
		}
		// probes: present keys, proper prefixes, extensions, neighbours
		pset := map[string]bool{"": true}
		for _, e := range kvs {
			pset[string(e.K)] = true
			if len(e.K) > 0 {
				pset[string(e.K[:len(e.K)-1])] = true
				x := append([]byte(nil), e.K...)
				x[len(x)-1]++
				pset[string(x)] = true
			}
			if r.Chance(50) {
				pset[string(append(append([]byte(nil), e.K...), 0x00))] = true
				pset[string(append(append([]byte(nil), e.K...), 0xFF))] = true
				pset[string(append(append([]byte(nil), e.K...), 'b'))] = true
			}
		}
		var probes [][]byte
		for p := range pset {
			probes = append(probes, []byte(p))
		}
		sort.Slice(probes, func(a, b int) bool { return bytes.Compare(probes[a], probes[b]) < 0 })
		prefixes := probes
		if len(prefixes) > 25 {
			prefixes = prefixes[:25]
		}
		hasPrefixPair := false
		for a := range kvs {
			for b := range kvs {
				if a != b && bytes.HasPrefix(kvs[b].K, kvs[a].K) {
					hasPrefixPair = true
				}
			}
		}
		desc := map[string]interface{}{"kind": "trie", "keys": kvs}
		if len(kvs) == 1 && len(kvs[0].K) == 0 {
			desc["sig"] = "single-empty-key"
		}
		if len(kvs) == 1 && len(kvs[0].K) == 1 && kvs[0].K[0] == 0xff {
			desc["sig"] = "lone-0xff-key"
		}
		idx := out.Case(desc, len(kvs) >= 3 && hasPrefixPair)
		out.Count("trie")
		out.Count(fmt.Sprintf("trie:keys:%02d-%02d", len(kvs)/10*10, len(kvs)/10*10+9))
		res := runCase(kvs, probes, prefixes)
		if res.err != "" {
			out.Violation(idx, "trie-failure", res.err, nil)
			continue
		}
		var es []string
		for _, e := range kvs {
			es = append(es, entCoq(e.K, e.V))
		}
		out.Check(idx, fmt.Sprintf("check_trie %s\n {| o_levels := %s;\n o_gets := %s;\n o_gets_loaded := %s;\n o_iter := %s;\n o_seeks := %s;\n o_prefix := %s |}",
			vh.List(es), res.levels, res.gets, res.getsLoaded, res.iter, res.seeks, res.prefix))
	}

	bucketCases(out, r, cfg.N/4+3)

	// large and wide key sets: compared with a sorted map directly (nodes with hundreds of labels, label counts
	// that are exact multiples of the 64-bit word size, thousands of keys)
	verify := func(idx int, keys [][]byte, vals []uint32) {
		defer func() {
			if rr := recover(); rr != nil {
				out.Violation(idx, "trie-failure", fmt.Sprintf("panic: %v", rr), nil)
			}
		}()
		b := trie.NewBuilder()
		b.Build(keys, vals)
		var buf bytes.Buffer
		_ = b.Write(&buf)
		loaded := trie.NewTrie()
		if err := loaded.UnmarshalBinary(buf.Bytes()); err != nil {
			out.Violation(idx, "trie-failure", err.Error(), nil)
			return
		}
		for ti, t := range []trie.SuccinctTrie{b.Trie(), loaded} {
			for j, k := range keys {
				if v, ok := t.Get(k); !ok || v != vals[j] {
					out.Violation(idx, "get-mismatch", fmt.Sprintf("trie %d key %x: got %d,%v want %d", ti, k, v, ok, vals[j]), nil)
					return
				}
				ext := append(append([]byte(nil), k...), 'q')
				if _, ok := t.Get(ext); ok && sort.Search(len(keys), func(i int) bool { return bytes.Compare(keys[i], ext) >= 0 }) == len(keys) {
					out.Violation(idx, "absent-key-found", fmt.Sprintf("%x", ext), nil)
					return
				}
			}
			it := t.NewIterator()
			it.SeekToFirst()
			j := 0
			for ; it.Valid() && j < len(keys); j++ {
				if !bytes.Equal(it.Key(), keys[j]) || it.Value() != vals[j] {
					out.Violation(idx, "iteration-mismatch", fmt.Sprintf("pos %d: %x want %x", j, it.Key(), keys[j]), nil)
					return
				}
				it.Next()
			}
			if j != len(keys) || it.Valid() {
				out.Violation(idx, "iteration-length", fmt.Sprintf("%d of %d", j, len(keys)), nil)
				return
			}
			// prefix enumeration for every first byte and for a few longer prefixes
			for _, k := range keys {
				if len(k) == 0 || (len(keys) > 300 && r.Chance(95)) {
					continue
				}
				p := k[:1+r.Intn(len(k))]
				want := 0
				for _, k2 := range keys {
					if bytes.HasPrefix(k2, p) {
						want++
					}
				}
				got := 0
				pit := t.NewPrefixIterator(p)
				for ; pit.Valid() && got <= len(keys); got++ {
					if !bytes.HasPrefix(pit.Key(), p) {
						break
					}
					pit.Next()
				}
				if got != want {
					out.Violation(idx, "prefix-enumeration", fmt.Sprintf("prefix %x: %d keys, want %d", p, got, want), nil)
					return
				}
			}
		}
	}
	direct := func(kind string, keys [][]byte) {
		sort.Slice(keys, func(a, b int) bool { return bytes.Compare(keys[a], keys[b]) < 0 })
		vals := make([]uint32, len(keys))
		for j := range vals {
			vals[j] = uint32(j*7 + 1)
		}
		idx := out.Case(map[string]interface{}{"kind": kind, "n": len(keys), "first": fmt.Sprintf("%x", keys[0]), "last": fmt.Sprintf("%x", keys[len(keys)-1])}, true)
		out.Count(kind)
		verify(idx, keys, vals)
		out.Check(idx, "(0, 0)")
	}
	// (a) random sets over a 6-letter alphabet
	nBig := 2
	if cfg.Tier == "thorough" {
		nBig = 10
	}
	for i := 0; i < nBig; i++ {
		n := []int{1500, 5000}[i%2]
		set := map[string]bool{}
		for len(set) < n {
			l := r.Range(0, 9)
			k := make([]byte, l)
			for j := range k {
				k[j] = []byte{'a', 'b', 'c', 0x00, 0xFF, 'x'}[r.Intn(6)]
			}
			set[string(k)] = true
		}
		var keys [][]byte
		for k := range set {
			keys = append(keys, []byte(k))
		}
		direct("big-trie", keys)
	}
	// (b) one-byte keys: a single node with n labels, n around the multiples of 64
	for _, n := range []int{63, 64, 65, 127, 128, 129, 191, 192, 193, 255, 256} {
		var keys [][]byte
		off := r.Intn(257 - n)
		for b := 0; b < n; b++ {
			keys = append(keys, []byte{byte(off + b)})
		}
		direct("wide-one-byte", keys)
	}
	// (c) big-endian ids 0..N-1 for 64 consecutive N: one of them makes the label count a multiple of 64
	base := r.Range(300, 4000)
	for N := base; N < base+64; N++ {
		var keys [][]byte
		for id := 0; id < N; id++ {
			keys = append(keys, []byte{byte(id >> 8), byte(id)})
		}
		direct("wide-uint16-ids", keys)
	}
	// (d) two printable groups with a wide last node
	for _, n := range []int{70, 95, 126, 94} {
		var keys [][]byte
		for c := 0; c < 31; c++ {
			keys = append(keys, []byte{'a', byte(33 + c)})
		}
		for c := 0; c < n && c < 95; c++ {
			keys = append(keys, []byte{'z', byte(32 + c)})
		}
		direct("wide-two-groups", keys)
	}
	out.Finish()
}
