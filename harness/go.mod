module lindbverif

go 1.22

require (
	github.com/cespare/xxhash/v2 v2.2.0
	github.com/lindb/common v0.0.6
	github.com/lindb/lindb v0.0.0
	github.com/lindb/roaring v1.2.1
	github.com/lithammer/go-jump-consistent-hash v1.0.2
	google.golang.org/grpc v1.59.0
)

require (
	github.com/BurntSushi/toml v1.2.1 // indirect
	github.com/antlr4-go/antlr/v4 v4.13.0 // indirect
	github.com/caarlos0/env/v7 v7.1.0 // indirect
	github.com/coreos/go-semver v0.3.0 // indirect
	github.com/coreos/go-systemd/v22 v22.5.0 // indirect
	github.com/dustin/go-humanize v1.0.1 // indirect
	github.com/gogo/protobuf v1.3.2 // indirect
	github.com/golang/protobuf v1.5.4 // indirect
	github.com/google/flatbuffers v23.3.3+incompatible // indirect
	github.com/google/uuid v1.3.1 // indirect
	github.com/grpc-ecosystem/go-grpc-middleware v1.3.0 // indirect
	github.com/hashicorp/golang-lru/v2 v2.0.7 // indirect
	github.com/jedib0t/go-pretty/v6 v6.4.6 // indirect
	github.com/json-iterator/go v1.1.12 // indirect
	github.com/klauspost/compress v1.17.1 // indirect
	github.com/klauspost/cpuid v1.3.1 // indirect
	github.com/mattn/go-isatty v0.0.19 // indirect
	github.com/mattn/go-runewidth v0.0.14 // indirect
	github.com/modern-go/concurrent v0.0.0-20180306012644-bacd9c7ef1dd // indirect
	github.com/modern-go/reflect2 v1.0.2 // indirect
	github.com/rivo/uniseg v0.2.0 // indirect
	github.com/shirou/gopsutil/v3 v3.22.5 // indirect
	github.com/tklauser/go-sysconf v0.3.10 // indirect
	github.com/tklauser/numcpus v0.4.0 // indirect
	github.com/xlab/treeprint v1.2.0 // indirect
	go.etcd.io/etcd/api/v3 v3.5.13 // indirect
	go.etcd.io/etcd/client/pkg/v3 v3.5.13 // indirect
	go.etcd.io/etcd/client/v3 v3.5.13 // indirect
	go.uber.org/atomic v1.11.0 // indirect
	go.uber.org/multierr v1.11.0 // indirect
	go.uber.org/zap v1.21.0 // indirect
	golang.org/x/exp v0.0.0-20231006140011-7918f672742d // indirect
	golang.org/x/net v0.17.0 // indirect
	golang.org/x/sys v0.15.0 // indirect
	golang.org/x/text v0.14.0 // indirect
	google.golang.org/genproto/googleapis/api v0.0.0-20231012201019-e917dd12ba7a // indirect
	google.golang.org/genproto/googleapis/rpc v0.0.0-20231009173412-8bfb1ae86b6c // indirect
	google.golang.org/protobuf v1.33.0 // indirect
	gopkg.in/natefinch/lumberjack.v2 v2.2.1 // indirect
)

replace github.com/lindb/lindb => /repo
