// Package md writes and reads metric data files of a kv family through the real metricsdata flusher and reader.
package md

import (
	"fmt"
	"math"
	"sort"

	"github.com/lindb/roaring"

	"github.com/lindb/lindb/flow"
	"github.com/lindb/lindb/kv"
	"github.com/lindb/lindb/kv/table"
	"github.com/lindb/lindb/kv/version"
	"github.com/lindb/lindb/pkg/bit"
	"github.com/lindb/lindb/pkg/encoding"
	"github.com/lindb/lindb/pkg/timeutil"
	"github.com/lindb/lindb/series/field"
	"github.com/lindb/lindb/tsdb/tblstore/metricsdata"
)

type Field struct {
	ID   uint8      `json:"id"`
	Type field.Type `json:"type"`
}

// Series: field id -> slot -> value
type Series struct {
	ID     uint32                       `json:"id"`
	Values map[uint8]map[uint16]float64 `json:"values"`
}

type Metric struct {
	ID     uint32   `json:"id"`
	Fields []Field  `json:"fields"`
	Start  uint16   `json:"start"`
	End    uint16   `json:"end"`
	Series []Series `json:"series"`
}

// WriteFile flushes one file holding the given metrics (sorted by id, series sorted by id) into the family.
func WriteFile(f kv.Family, metrics []Metric) error {
	kvFlusher := f.NewFlusher()
	defer kvFlusher.Release()
	fl, err := metricsdata.NewFlusher(kvFlusher)
	if err != nil {
		return err
	}
	sort.Slice(metrics, func(i, j int) bool { return metrics[i].ID < metrics[j].ID })
	for _, m := range metrics {
		var metas field.Metas
		for _, fd := range m.Fields {
			metas = append(metas, field.Meta{ID: field.ID(fd.ID), Type: fd.Type})
		}
		fl.PrepareMetric(m.ID, metas)
		ss := append([]Series(nil), m.Series...)
		sort.Slice(ss, func(i, j int) bool { return ss[i].ID < ss[j].ID })
		for _, s := range ss {
			for _, fd := range m.Fields {
				vals := s.Values[fd.ID]
				if len(vals) == 0 {
					if err := fl.FlushField(nil); err != nil {
						return err
					}
					continue
				}
				enc := encoding.NewTSDEncoder(m.Start)
				for slot := int(m.Start); slot <= int(m.End); slot++ {
					v, ok := vals[uint16(slot)]
					if ok {
						enc.AppendTime(bit.One)
					} else {
						enc.AppendTime(bit.Zero)
					}
					if ok {
						enc.AppendValue(math.Float64bits(v))
					}
				}
				data, err := enc.BytesWithoutTime()
				if err != nil {
					return err
				}
				if err := fl.FlushField(append([]byte(nil), data...)); err != nil {
					return err
				}
			}
			if err := fl.FlushSeries(s.ID); err != nil {
				return err
			}
		}
		if err := fl.CommitMetric(timeutil.SlotRange{Start: m.Start, End: m.End}); err != nil {
			return err
		}
	}
	return fl.Close()
}

// Decoded is what one file holds for one metric.
type Decoded struct {
	Fields []Field                                 `json:"fields"`
	Start  uint16                                  `json:"start"`
	End    uint16                                  `json:"end"`
	Series map[uint32]map[uint8]map[uint16]float64 `json:"series"`
}

// DecodeBlock decodes one metric block through the real reader and loader.
func DecodeBlock(block []byte) (*Decoded, error) {
	r, err := metricsdata.NewReader("verif", block)
	if err != nil {
		return nil, err
	}
	d := &Decoded{Series: map[uint32]map[uint8]map[uint16]float64{}}
	tr := r.GetTimeRange()
	d.Start, d.End = tr.Start, tr.End
	fields := r.GetFields()
	for _, fm := range fields {
		d.Fields = append(d.Fields, Field{ID: uint8(fm.ID), Type: fm.Type})
	}
	sctx := &flow.StorageExecuteContext{Fields: fields}
	shardCtx := flow.NewShardExecuteContext(sctx)
	sids := r.GetSeriesIDs()
	for _, hk := range sids.GetHighKeys() {
		container := sids.GetContainer(hk)
		var cur *flow.DataLoadContext
		cur = &flow.DataLoadContext{
			ShardExecuteCtx:       shardCtx,
			SeriesIDHighKey:       hk,
			LowSeriesIDsContainer: container,
			Decoder:               encoding.GetTSDDecoder(),
			DownSampling: func(slotRange timeutil.SlotRange, seriesIdx uint16, fieldIdx int, getter encoding.TSDValueGetter) {
				sid := uint32(hk)<<16 | uint32(cur.LowSeriesIDs[seriesIdx])
				fm := d.Series[sid]
				if fm == nil {
					fm = map[uint8]map[uint16]float64{}
					d.Series[sid] = fm
				}
				fid := uint8(fields[fieldIdx].ID)
				for slot := int(slotRange.Start); slot <= int(slotRange.End); slot++ {
					if v, ok := getter.GetValue(uint16(slot)); ok {
						if fm[fid] == nil {
							fm[fid] = map[uint16]float64{}
						}
						fm[fid][uint16(slot)] = v
					}
				}
			},
		}
		cur.Grouping()
		loader := r.Load(cur)
		if loader == nil {
			return nil, fmt.Errorf("no loader for high key %d", hk)
		}
		loader.Load(cur)
	}
	return d, nil
}

// FileNumbers returns the file numbers of all levels of the family's current version, ascending.
func FileNumbers(f kv.Family) (all []table.FileNumber, level0 []table.FileNumber) {
	snap := f.GetSnapshot()
	defer snap.Close()
	v := snap.GetCurrent()
	for _, fm := range v.GetAllFiles() {
		all = append(all, fm.GetFileNumber())
	}
	for _, fm := range v.GetFiles(0) {
		level0 = append(level0, fm.GetFileNumber())
	}
	sort.Slice(all, func(i, j int) bool { return all[i] < all[j] })
	sort.Slice(level0, func(i, j int) bool { return level0[i] < level0[j] })
	return
}

// ReadFile decodes the blocks of the given metrics held by one file of the family.
func ReadFile(snap version.Snapshot, file table.FileNumber, metricIDs []uint32) (map[uint32]*Decoded, error) {
	reader, err := snap.GetReader(file)
	if err != nil {
		return nil, err
	}
	out := map[uint32]*Decoded{}
	for _, id := range metricIDs {
		block, err := reader.Get(id)
		if err != nil || len(block) == 0 {
			continue
		}
		d, err := DecodeBlock(block)
		if err != nil {
			return nil, fmt.Errorf("file %d metric %d: %w", file, id, err)
		}
		out[id] = d
	}
	return out, nil
}

var _ = roaring.New
