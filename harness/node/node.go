// Package node runs one in-process storage node (tsdb engine, one database, one shard, one data family) with an
// optional write-ahead log partition whose local replicator is driven step by step, and supports crash images
// (copy of the node directory opened as a new node).
package node

import (
	"bytes"
	"context"
	"fmt"
	"os"
	"os/exec"
	"path/filepath"
	"time"

	"github.com/lindb/common/pkg/ltoml"
	protoMetricsV1 "github.com/lindb/common/proto/gen/v1/linmetrics"

	"github.com/lindb/lindb/config"
	"github.com/lindb/lindb/models"
	"github.com/lindb/lindb/pkg/compress"
	"github.com/lindb/lindb/pkg/option"
	"github.com/lindb/lindb/pkg/queue"
	"github.com/lindb/lindb/pkg/timeutil"
	"github.com/lindb/lindb/replica"
	"github.com/lindb/lindb/series/metric"
	"github.com/lindb/lindb/tsdb"
)

const (
	DBName = "verifdb"
	NodeID = models.NodeID(1)
)

type Node struct {
	Dir        string // node directory: <Dir>/tsdb, <Dir>/wal
	Intervals  option.Intervals
	FamilyTime int64
	Engine     tsdb.Engine
	DB         tsdb.Database
	Shard      tsdb.Shard
	Family     tsdb.DataFamily
	Log        queue.FanOutQueue
	Part       replica.Partition
	Group      queue.ConsumerGroup
	WithWAL    bool
}

func setConfig(dir string) {
	cfg := &config.StorageBase{TSDB: config.TSDB{
		Dir:                      filepath.Join(dir, "tsdb"),
		MaxMemDBSize:             ltoml.Size(1 << 30),
		MutableMemDBTTL:          ltoml.Duration(time.Hour),
		MaxMemUsageBeforeFlush:   0.99,
		TargetMemUsageAfterFlush: 0.9,
		FlushConcurrency:         1,
		SeriesSequenceCache:      1000,
		MetaSequenceCache:        1000,
	}}
	config.SetGlobalStorageConfig(cfg)
}

// Open opens (or creates) the node in dir.
func Open(dir string, intervals option.Intervals, familyTime int64, withWAL bool) (*Node, error) {
	n := &Node{Dir: dir, Intervals: intervals, FamilyTime: familyTime, WithWAL: withWAL}
	setConfig(dir)
	engine, err := tsdb.NewEngine()
	if err != nil {
		return nil, err
	}
	n.Engine = engine
	opt := &option.DatabaseOption{Intervals: intervals, AutoCreateNS: true}
	if err := engine.CreateShards(DBName, opt, models.ShardID(1)); err != nil {
		return nil, err
	}
	db, ok := engine.GetDatabase(DBName)
	if !ok {
		return nil, fmt.Errorf("database not found after CreateShards")
	}
	n.DB = db
	shard, ok := db.GetShard(models.ShardID(1))
	if !ok {
		return nil, fmt.Errorf("shard not found")
	}
	n.Shard = shard
	fam, err := shard.GetOrCrateDataFamily(familyTime)
	if err != nil {
		return nil, err
	}
	n.Family = fam
	if withWAL {
		if err := n.OpenWAL(); err != nil {
			return nil, err
		}
	}
	return n, nil
}

// OpenWAL opens the log directory and builds the partition with its local replicator on the loaded family.
func (n *Node) OpenWAL() error {
	log, err := queue.NewFanOutQueue(filepath.Join(n.Dir, "wal"), 0)
	if err != nil {
		return err
	}
	n.Log = log
	n.Part = replica.NewPartition(context.Background(), n.Shard, n.Family, NodeID, log, nil, nil)
	if err := n.Part.BuildReplicaForLeader(NodeID, []models.NodeID{NodeID}); err != nil {
		return err
	}
	g, err := log.GetOrCreateConsumerGroup(fmt.Sprintf("%d", NodeID))
	if err != nil {
		return err
	}
	n.Group = g
	return nil
}

// RebuildWAL closes the log partition and opens it again while the engine and the family stay loaded.
func (n *Node) RebuildWAL() error {
	n.Part.Stop()
	_ = n.Part.Close()
	return n.OpenWAL()
}

// Close closes the node (the engine flushes on close; a crash image must be taken before).
func (n *Node) Close() {
	// the order of the storage runtime: stop the replicators, close the engine (it flushes, the flush acknowledges
	// the log), then close the log
	if n.Part != nil {
		n.Part.Stop()
	}
	if n.Engine != nil {
		n.Engine.Close()
	}
	if n.Part != nil {
		_ = n.Part.Close()
	}
	n.Engine, n.Part = nil, nil
}

// Image copies the node directory as it is now.
func (n *Node) Image(dst string) error {
	_ = os.RemoveAll(dst)
	return exec.Command("cp", "-r", n.Dir, dst).Run()
}

// Rows builds the storage rows of one metric point.
func Rows(ns, name string, tags map[string]string, fields map[string]float64, ts int64) []*metric.StorageRow {
	pm := &protoMetricsV1.Metric{Name: name, Namespace: ns, Timestamp: ts}
	for k, v := range tags {
		pm.Tags = append(pm.Tags, &protoMetricsV1.KeyValue{Key: k, Value: v})
	}
	for f, v := range fields {
		pm.SimpleFields = append(pm.SimpleFields, &protoMetricsV1.SimpleField{Name: f, Type: protoMetricsV1.SimpleFieldType_DELTA_SUM, Value: v})
	}
	var br metric.StorageBatchRows
	br.UnmarshalRows(Block(pm))
	return br.Rows()
}

// Block marshals metrics into the flat block the write path stores in the log (uncompressed).
func Block(ms ...*protoMetricsV1.Metric) []byte {
	ml := protoMetricsV1.MetricList{Metrics: ms}
	var buf bytes.Buffer
	converter := metric.NewProtoConverter(models.NewDefaultLimits())
	if _, err := converter.MarshalProtoMetricListV1To(ml, &buf); err != nil {
		panic(err)
	}
	return append([]byte(nil), buf.Bytes()...)
}

// Compressed returns the log message of a block.
func Compressed(block []byte) []byte {
	w := compress.NewSnappyWriter()
	_, _ = w.Write(block)
	_ = w.Close()
	return append([]byte(nil), w.Bytes()...)
}

// FlushMetaAndIndex runs the first two steps of the flush checker's order.
func (n *Node) FlushMetaAndIndex() error {
	if err := n.DB.FlushMeta(); err != nil {
		return err
	}
	n.DB.WaitFlushMetaCompleted()
	if err := n.Shard.FlushIndex(); err != nil {
		return err
	}
	n.Shard.WaitFlushIndexCompleted()
	return nil
}

// FamilyStart returns the start timestamp of the node's family and its interval.
func (n *Node) FamilyStart() (int64, timeutil.Interval) {
	return n.FamilyTime, n.Intervals[0].Interval
}
