// qdbg prints the raw result set of SQL statements (arguments) over the directed world of the C12 harness.
package main

import (
	"os"

	"lindbverif/qh"
)

func main() { qh.Debug(os.Args[1:]) }
