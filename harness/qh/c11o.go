package qh

// Overlap worlds of C11: a statement answered while the data family is being flushed. The leaf's read of the family
// (memory databases first, then the snapshot of the files) and the flush (swap mutable -> immutable, write and commit
// the file, drop the immutable database) are parked at scheduling points and interleaved as the schedule says.

import (
	"fmt"
	"os"
	"path/filepath"
	"strings"
	"sync"
	"time"

	"github.com/lindb/lindb/pkg/timeutil"
	"github.com/lindb/lindb/pkg/verifhook"

	"lindbverif/vh"
)

// the schedules: the query's two reads against the flush's three steps
var overlapSchedules = [][]string{
	{"QMem", "QFile"},
	{"Swap", "Commit", "Drop", "QMem", "QFile"},
	{"Swap", "QMem", "QFile", "Commit", "Drop"},
	{"QMem", "Swap", "Commit", "QFile", "Drop"},
	{"Swap", "QMem", "Commit", "QFile", "Drop"},
	{"Swap", "Commit", "QMem", "QFile", "Drop"},
	{"QMem", "Swap", "QFile", "Commit", "Drop"},
	{"QMem", "Swap", "Commit", "Drop", "QFile"},
}

type parker struct {
	mu      sync.Mutex
	parked  map[string]chan struct{} // point -> resume channel of the goroutine parked there
	arrived chan string
}

func (p *parker) hook(point string) {
	switch point {
	case "tsdb.family.filter.afterMemory", "tsdb.family.flush.afterSwap", "tsdb.family.flush.afterCommit":
	default:
		return
	}
	ch := make(chan struct{})
	p.mu.Lock()
	p.parked[point] = ch
	p.mu.Unlock()
	p.arrived <- point
	<-ch
}

func (p *parker) resume(point string) {
	p.mu.Lock()
	ch := p.parked[point]
	delete(p.parked, point)
	p.mu.Unlock()
	if ch != nil {
		close(ch)
	}
}

// waitFor waits until a goroutine parks at the point (or the timeout passes).
func (p *parker) waitFor(point string, d time.Duration) bool {
	deadline := time.After(d)
	for {
		p.mu.Lock()
		_, ok := p.parked[point]
		p.mu.Unlock()
		if ok {
			return true
		}
		select {
		case <-p.arrived:
		case <-deadline:
			return false
		}
	}
}

func overlapRun(out *vh.Out, root string, wi, si int, name string, pts []point, q *queryJ, sched []string) {
	dir := filepath.Join(root, fmt.Sprintf("o%d-%d", wi, si))
	c, err := newCluster(dir, refLayout, intervals, 20*time.Second)
	if err != nil {
		out.Violation(0, "harness", "cluster: "+err.Error(), nil)
		return
	}
	defer func() { c.close(); _ = os.RemoveAll(dir) }()
	c.order = func(n int) []int {
		o := make([]int, n)
		for i := range o {
			o[i] = i
		}
		return o
	}
	for _, p := range pts {
		if _, err := c.write(p.proto()); err != nil {
			out.Violation(0, "harness", "write: "+err.Error(), nil)
			return
		}
	}
	// metadata and index are flushed beforehand; the data family's flush is the one interleaved
	s := c.storage[0]
	if err := s.db.FlushMeta(); err != nil {
		out.Violation(0, "harness", "flush meta: "+err.Error(), nil)
		return
	}
	s.db.WaitFlushMetaCompleted()
	shard, _ := s.db.GetShard(s.shards[0])
	if err := shard.FlushIndex(); err != nil {
		out.Violation(0, "harness", "flush index: "+err.Error(), nil)
		return
	}
	shard.WaitFlushIndexCompleted()
	fams := shard.GetDataFamilies(timeutil.Day, timeutil.TimeRange{Start: 0, End: 1 << 62})
	if len(fams) != 1 {
		out.Violation(0, "harness", fmt.Sprintf("%d data families", len(fams)), nil)
		return
	}
	fam := fams[0]

	pk := &parker{parked: map[string]chan struct{}{}, arrived: make(chan string, 16)}
	verifhook.Set(pk.hook)
	defer verifhook.Set(nil)
	var o obsJ
	var fail string
	qDone, fDone := make(chan struct{}), make(chan struct{})
	var flushErr error
	qStarted, fStarted := false, false
	stuck := ""
	for _, stp := range sched {
		if stuck != "" {
			break
		}
		switch stp {
		case "QMem":
			qStarted = true
			go func() { o, fail = c.run(q); close(qDone) }()
			if !pk.waitFor("tsdb.family.filter.afterMemory", 10*time.Second) {
				stuck = "the query did not reach the family read"
			}
		case "QFile":
			pk.resume("tsdb.family.filter.afterMemory")
			select {
			case <-qDone:
			case <-time.After(20 * time.Second):
				stuck = "the query did not finish"
			}
		case "Swap":
			fStarted = true
			go func() { flushErr = fam.Flush(); close(fDone) }()
			if !pk.waitFor("tsdb.family.flush.afterSwap", 10*time.Second) {
				stuck = "the flush did not reach the swap"
			}
		case "Commit":
			pk.resume("tsdb.family.flush.afterSwap")
			if !pk.waitFor("tsdb.family.flush.afterCommit", 20*time.Second) {
				stuck = "the flush did not reach the commit"
			}
		case "Drop":
			pk.resume("tsdb.family.flush.afterCommit")
			select {
			case <-fDone:
			case <-time.After(20 * time.Second):
				stuck = "the flush did not finish"
			}
		}
	}
	// let whatever is still parked go
	for _, p := range []string{"tsdb.family.filter.afterMemory", "tsdb.family.flush.afterSwap", "tsdb.family.flush.afterCommit"} {
		pk.resume(p)
	}
	verifhook.Set(nil)
	for _, p := range []string{"tsdb.family.filter.afterMemory", "tsdb.family.flush.afterSwap", "tsdb.family.flush.afterCommit"} {
		pk.resume(p)
	}
	if qStarted {
		<-qDone
	}
	if fStarted {
		<-fDone
	}
	if stuck != "" {
		out.Violation(0, "harness", "schedule "+strings.Join(sched, " ")+": "+stuck, nil)
		return
	}
	if flushErr != nil {
		out.Violation(0, "harness", "flush: "+flushErr.Error(), nil)
		return
	}
	if fail != "" {
		out.Violation(0, "harness", fail+": "+o.Err, q)
		return
	}
	lo, hi, ratio, err := planOf(q)
	if err != nil {
		out.Violation(0, "harness", "plan: "+err.Error(), q)
		return
	}
	out.Count("overlap-schedule:" + strings.Join(sched, ","))
	var evs []string
	for _, stp := range sched {
		evs = append(evs, "Overlap.E"+stp)
	}
	ptsName := fmt.Sprintf("o%d_pts", wi)
	if si == 0 {
		out.Coqf("Definition %s : list point := %s.\n", ptsName, pointsCoq(pts))
	}
	idx := out.Case(map[string]interface{}{"kind": "overlap", "world": name, "points": pts, "query": q, "schedule": sched,
		"plan": map[string]int64{"lo": lo, "hi": hi, "ratio": ratio}, "observed": o}, len(sched) > 2 && len(o.Entries) > 0)
	out.Check(idx, fmt.Sprintf("check_overlap %s %s %s\n %s", ptsName, queryCoq(q, lo, hi, ratio), vh.List(evs), obsCoq(o)))
}

// C11OverlapWorlds runs n worlds, each under every schedule.
func C11OverlapWorlds(out *vh.Out, root string, seed uint64, n int) {
	baseTime = time.Date(2023, 6, 15, 10, 0, 0, 0, time.Now().Location()).UnixMilli()
	for wi := 0; wi < n; wi++ {
		r := vh.NewRand(seed*1000003 + uint64(wi) + 99991)
		nh := r.Range(2, 5)
		var pts []point
		seen := map[[2]int]bool{}
		for len(pts) < r.Range(12, 30) {
			p := point{Metric: 0, Host: r.Intn(nh), Slot: r.Intn(40), Vals: map[int]int{}}
			p.Zone = p.Host % 3
			if seen[[2]int{p.Host, p.Slot}] {
				continue
			}
			seen[[2]int{p.Host, p.Slot}] = true
			for f := 0; f < 3; f++ { // sum, min, max fields
				if r.Chance(70) {
					p.Vals[f] = r.Range(1, 60)
				}
			}
			if len(p.Vals) == 0 {
				p.Vals[0] = r.Range(1, 60)
			}
			pts = append(pts, p)
		}
		q := &queryJ{Metric: 0, Lo: 0, Hi: 60}
		q.Items = []itemJ{{0, 0}}
		if r.Chance(60) {
			q.Items = append(q.Items, itemJ{r.Range(1, 2), 0})
		}
		switch r.Intn(3) {
		case 0:
			q.Group = []int{0}
		case 1:
			q.Group = []int{1}
		}
		if r.Chance(30) {
			q.Ivl = 60
		}
		q.render()
		for si, sched := range overlapSchedules {
			overlapRun(out, root, wi, si, fmt.Sprintf("overlap world %d", wi), pts, q, sched)
		}
	}
	out.Notes = append(out.Notes, "overlap worlds: the leaf's read of the data family and DataFamily.Flush are parked at scheduling points (after the memory databases were collected; after the swap; after the file was committed) and interleaved as the schedule says; one family, sum/min/max fields, every slot written once")
}
