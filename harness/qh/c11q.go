package qh

// Query worlds of C11: one storage node with one shard; points are written with flushes and compactions of the data
// families placed between them, and at checkpoints SQL statements are answered by the real query path
// (query.MetricDataSearch, root and leaf processors) and compared with the reference evaluation of the points
// written so far.

import (
	"fmt"
	"os"
	"path/filepath"
	"time"

	"github.com/lindb/lindb/kv"
	"github.com/lindb/lindb/pkg/timeutil"

	"lindbverif/vh"
)

// compactAll runs the compaction job of every data family's kv family.
func (c *cluster) compactAll() {
	for _, s := range c.storage {
		if s.db == nil {
			continue
		}
		for _, sid := range s.shards {
			shard, _ := s.db.GetShard(sid)
			for _, fam := range shard.GetDataFamilies(timeutil.Day, timeutil.TimeRange{Start: 0, End: 1 << 62}) {
				kf := fam.Family()
				kf.Compact()
				time.Sleep(2 * time.Millisecond)
				kv.VerifWaitBackground(kf)
			}
		}
	}
}

type qstep struct {
	Op string `json:"op"` // w write, f flush, c compact
	P  *point `json:"p,omitempty"`
}

func genStep(r *vh.Rand, nh int, twoFamilies bool) qstep {
	switch x := r.Intn(100); {
	case x < 9:
		return qstep{Op: "f"}
	case x < 13:
		return qstep{Op: "c"}
	}
	p := point{Metric: 0, Host: r.Intn(nh), Vals: map[int]int{}}
	p.Zone = p.Host % 3
	switch {
	case twoFamilies && r.Chance(35):
		p.Slot = 355 + r.Intn(20)
		if r.Chance(30) {
			p.Slot = 360 // the first slot of the second family hour
		}
	case r.Chance(15):
		p.Slot = 3 * r.Intn(4) // slots written again and again
	default:
		p.Slot = r.Intn(40)
	}
	for f := 0; f < 5; f++ {
		if r.Chance(60) {
			p.Vals[f] = r.Range(1, 60)
		}
	}
	if len(p.Vals) == 0 {
		p.Vals[r.Intn(5)] = r.Range(1, 60)
	}
	return qstep{Op: "w", P: &p}
}

func c11World(out *vh.Out, root string, wi int, name string, steps []qstep, checkpoints map[int][]*queryJ) {
	dir := filepath.Join(root, fmt.Sprintf("q%d", wi))
	c, err := newCluster(dir, refLayout, intervals, 20*time.Second)
	if err != nil {
		out.Violation(0, "harness", "cluster: "+err.Error(), nil)
		return
	}
	defer func() { c.close(); _ = os.RemoveAll(dir) }()
	c.order = func(n int) []int {
		o := make([]int, n)
		for i := range o {
			o[i] = i
		}
		return o
	}
	var pts []point
	var hist []qstep
	nflush, ncompact, rewrites := 0, 0, 0
	seen := map[[3]int]bool{}
	for i, st := range steps {
		hist = append(hist, st)
		switch st.Op {
		case "w":
			if _, err := c.write(st.P.proto()); err != nil {
				out.Violation(0, "harness", "write: "+err.Error(), hist)
				return
			}
			pts = append(pts, *st.P)
			k := [3]int{st.P.Metric, st.P.Host, st.P.Slot}
			if seen[k] {
				rewrites++
			}
			seen[k] = true
		case "f":
			if err := c.flushAll(); err != nil {
				out.Violation(0, "harness", "flush: "+err.Error(), hist)
				return
			}
			nflush++
		case "c":
			c.compactAll()
			ncompact++
		}
		qs := checkpoints[i]
		if len(qs) == 0 {
			continue
		}
		ptsName := fmt.Sprintf("q%d_%d_pts", wi, i)
		out.Coqf("Definition %s : list point := %s.\n", ptsName, pointsCoq(pts))
		for _, q := range qs {
			o, fail := c.run(q)
			if fail != "" {
				out.Violation(0, "harness", fail+": "+o.Err, q)
				continue
			}
			lo, hi, ratio, err := planOf(q)
			if err != nil {
				out.Violation(0, "harness", "plan: "+err.Error(), q)
				continue
			}
			out.Count("query-world-statements")
			out.Count(fmt.Sprintf("q-ratio:%d", ratio))
			out.Count(fmt.Sprintf("q-group-keys:%d", len(q.Group)))
			out.Count(fmt.Sprintf("q-outcome:%d", o.Code))
			for _, it := range q.Items {
				out.Count("q-item:" + funcNames[it.Func] + "/" + fieldName(it.Field))
			}
			out.CountN("q-flushes-before", nflush)
			out.CountN("q-compactions-before", ncompact)
			hcopy := append([]qstep{}, hist...)
			idx := out.Case(map[string]interface{}{"kind": "query", "world": name, "steps": hcopy, "query": q,
				"plan": map[string]int64{"lo": lo, "hi": hi, "ratio": ratio}, "observed": o},
				nflush >= 1 && rewrites >= 2 && len(o.Entries) > 0)
			out.Check(idx, fmt.Sprintf("check_query %s %s\n %s", ptsName, queryCoq(q, lo, hi, ratio), obsCoq(o)))
		}
	}
}

// C11QueryWorlds runs n random query worlds and the directed ones.
func C11QueryWorlds(out *vh.Out, root string, seed uint64, n int) {
	baseTime = time.Date(2023, 6, 15, 10, 0, 0, 0, time.Now().Location()).UnixMilli()
	lastFirstAtStorageInterval = false
	orderByStatements = false
	mk := func(q queryJ) *queryJ { q.render(); return &q }
	w := func(h, slot int, vals map[int]int) qstep {
		return qstep{Op: "w", P: &point{Metric: 0, Host: h, Zone: h % 3, Slot: slot, Vals: vals}}
	}
	wi := 0
	// after a flush the fresh memory database holds other fields / other series than the statement asks for
	c11World(out, root, wi, "directed: a source without the statement's fields or series", []qstep{
		w(1, 3, map[int]int{0: 1, 1: 7, 2: 9}), w(0, 4, map[int]int{0: 2, 1: 8, 2: 10}), {Op: "f"},
		w(1, 6, map[int]int{0: 43}), w(2, 7, map[int]int{1: 5}), {Op: "f"}, w(3, 9, map[int]int{2: 11}),
	}, map[int][]*queryJ{
		3: {mk(queryJ{Items: []itemJ{{1, 0}, {2, 0}}, Group: []int{0}, Lo: 0, Hi: 40}), mk(queryJ{Items: []itemJ{{0, 0}}, Filter: []filterJ{{0, []int{0}}}, Lo: 0, Hi: 40})},
		6: {mk(queryJ{Items: []itemJ{{1, 0}, {2, 0}}, Group: []int{0}, Lo: 0, Hi: 40}), mk(queryJ{Items: []itemJ{{0, 0}}, Filter: []filterJ{{0, []int{0, 1}}}, Group: []int{0}, Lo: 0, Hi: 40}),
			mk(queryJ{Items: []itemJ{{2, 0}}, Filter: []filterJ{{0, []int{3}}}, Lo: 0, Hi: 40})},
	})
	wi++
	// the recorded behaviours: a function over a slot held by two sources; last down-sampled over two sources
	c11World(out, root, wi, "directed: behaviours on record (function over a split slot, last over sources)", []qstep{
		w(0, 5, map[int]int{0: 45}), {Op: "f"}, w(0, 5, map[int]int{0: 41}),
		w(1, 9, map[int]int{3: 54}), w(1, 30, map[int]int{3: 1}), w(1, 7, map[int]int{3: 50}),
	}, map[int][]*queryJ{
		5: {mk(queryJ{Items: []itemJ{{0, 3}, {0, 0}}, Filter: []filterJ{{0, []int{0}}}, Lo: 0, Hi: 40}),
			mk(queryJ{Items: []itemJ{{3, 0}}, Filter: []filterJ{{0, []int{1}}}, Lo: 6, Hi: 11, Ivl: 60})},
	})
	wi++
	// ranges that end (inclusively) on the first slot of a family, or start there
	c11World(out, root, wi, "directed: a range ending on the first slot of the next family hour", []qstep{
		w(0, 350, map[int]int{0: 1}), w(0, 359, map[int]int{0: 2}), w(0, 360, map[int]int{0: 4}), w(1, 360, map[int]int{0: 8}), w(0, 361, map[int]int{0: 16}), {Op: "f"},
		w(1, 360, map[int]int{0: 32}),
	}, map[int][]*queryJ{
		4: {mk(queryJ{Items: []itemJ{{0, 0}}, Lo: 350, Hi: 360}), mk(queryJ{Items: []itemJ{{0, 0}}, Lo: 360, Hi: 365}), mk(queryJ{Items: []itemJ{{0, 0}}, Group: []int{0}, Lo: 340, Hi: 361})},
		6: {mk(queryJ{Items: []itemJ{{0, 0}}, Lo: 350, Hi: 360}), mk(queryJ{Items: []itemJ{{0, 0}}, Group: []int{0}, Lo: 359, Hi: 360})},
	})
	wi++
	for i := 0; i < n; i++ {
		r := vh.NewRand(seed*1000003 + uint64(i) + 7777)
		nh := r.Range(2, 6)
		two := r.Chance(25)
		ns := r.Range(25, 70)
		var steps []qstep
		for j := 0; j < ns; j++ {
			steps = append(steps, genStep(r, nh, two))
		}
		cps := map[int][]*queryJ{}
		var sofar []point
		ncp := r.Range(2, 4)
		at := map[int]bool{ns - 1: true}
		for len(at) < ncp {
			at[r.Range(ns/3, ns-1)] = true
		}
		for j, st := range steps {
			if st.Op == "w" {
				sofar = append(sofar, *st.P)
			}
			if at[j] && len(sofar) > 0 {
				nq := r.Range(2, 4)
				for k := 0; k < nq; k++ {
					cps[j] = append(cps[j], genQuery(r, sofar, false, false))
				}
			}
		}
		c11World(out, root, wi, fmt.Sprintf("random query world %d", i), steps, cps)
		wi++
	}
	out.Notes = append(out.Notes, "query worlds: one engine, one shard; statements answered by query.MetricDataSearch over the real root and leaf processors (loopback transport); flush = metadata, index and every data family; compaction = the kv compaction job of every data family")
}
