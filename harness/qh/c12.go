// Package qh holds the in-process cluster and the query harnesses built on it (C12, and the query worlds of C11).
//
// C12 harness: the same points written into clusters of different physical layout (shard count, placement of shards
// on storage nodes, with or without compute brokers) and the same statements answered by the real root search, the
// real intermediate and leaf processors, under a delivery order of the responses picked per run.  A case pairs the
// run on the reference layout (one shard, one node) with the run on another layout.
package qh

import (
	"context"
	"encoding/json"
	"fmt"
	"os"
	"path/filepath"
	"sort"
	"strings"
	"time"

	commonmodels "github.com/lindb/common/models"
	protoMetricsV1 "github.com/lindb/common/proto/gen/v1/linmetrics"

	"github.com/lindb/lindb/models"
	"github.com/lindb/lindb/pkg/option"
	"github.com/lindb/lindb/pkg/timeutil"
	"github.com/lindb/lindb/query"
	querycontext "github.com/lindb/lindb/query/context"
	"github.com/lindb/lindb/sql"
	stmtpkg "github.com/lindb/lindb/sql/stmt"

	"lindbverif/vh"
)

var (
	intervals = option.Intervals{{Interval: timeutil.Interval(10 * 1000), Retention: timeutil.Interval(int64(200*365) * 24 * 3600 * 1000)}}
	baseTime  int64 // 2023-06-15 10:00:00 local time: the SQL text is local time
)

var fieldDefs = []struct {
	name string
	pt   protoMetricsV1.SimpleFieldType
}{
	{"f1", protoMetricsV1.SimpleFieldType_DELTA_SUM},
	{"f2", protoMetricsV1.SimpleFieldType_Min},
	{"f3", protoMetricsV1.SimpleFieldType_Max},
	{"f4", protoMetricsV1.SimpleFieldType_LAST},
	{"f5", protoMetricsV1.SimpleFieldType_FIRST},
}
var funcNames = []string{"", "sum", "min", "max", "last", "first"}
var metricNames = []string{"m", "m2", "m3"}
var hosts = []string{"h0", "h1", "h2", "h3", "h4", "h5", "h6", "h7"}
var zones = []string{"za", "zb", "zc"}

type point struct {
	Metric int         `json:"metric"`
	Host   int         `json:"host"`
	Zone   int         `json:"zone"`
	Slot   int         `json:"slot"` // storage slot (10s) counted from baseTime
	Vals   map[int]int `json:"values"`
}

// noTag: the series does not carry the tag key at all (the model's value 99)
const noTag = 99

func (p point) proto() *protoMetricsV1.Metric {
	pm := &protoMetricsV1.Metric{Name: metricNames[p.Metric], Namespace: "ns", Timestamp: baseTime + int64(p.Slot)*10000 + 1234,
		Tags: []*protoMetricsV1.KeyValue{{Key: "zone", Value: zones[p.Zone]}}}
	if p.Host != noTag {
		pm.Tags = append([]*protoMetricsV1.KeyValue{{Key: "host", Value: hosts[p.Host]}}, pm.Tags...)
	}
	for _, f := range sortedKeys(p.Vals) {
		pm.SimpleFields = append(pm.SimpleFields, &protoMetricsV1.SimpleField{Name: fieldDefs[f].name, Type: fieldDefs[f].pt, Value: float64(p.Vals[f])})
	}
	return pm
}

func sortedKeys(m map[int]int) []int {
	var ks []int
	for k := range m {
		ks = append(ks, k)
	}
	sort.Ints(ks)
	return ks
}

// ---- statements ----

type itemJ struct {
	Field int `json:"field"` // 0..4 = f1..f5, 8 = a field nobody wrote
	Func  int `json:"func"`  // 0 none, 1 sum, 2 min, 3 max, 4 last, 5 first
}
type filterJ struct {
	Key    int   `json:"key"` // 0 host, 1 zone
	Values []int `json:"values"`
}
type queryJ struct {
	Metric int       `json:"metric"` // 9: a metric nobody wrote
	Items  []itemJ   `json:"items"`
	Filter []filterJ `json:"filter,omitempty"`
	Group  []int     `json:"group,omitempty"`
	Lo     int       `json:"lo"`
	Hi     int       `json:"hi"`
	Ivl    int       `json:"interval_s,omitempty"` // group by time(..), seconds; 0: none
	Order  *orderJ   `json:"order,omitempty"`      // order by a selected plain sum/min/max field, with a limit
	SQL    string    `json:"sql"`
}
type orderJ struct {
	Item  int  `json:"item"`
	Desc  bool `json:"desc"`
	Limit int  `json:"limit"`
}

func tstr(slot int) string {
	return time.UnixMilli(baseTime + int64(slot)*10000).Format("2006-01-02 15:04:05")
}
func fieldName(f int) string {
	if f < len(fieldDefs) {
		return fieldDefs[f].name
	}
	return fmt.Sprintf("f%d", f+1)
}
func tagValue(key, v int) string {
	if key == 0 {
		if v < len(hosts) {
			return hosts[v]
		}
		return "nohost"
	}
	if v < len(zones) {
		return zones[v]
	}
	return "nozone"
}
func (it itemJ) text() string {
	if it.Func == 0 {
		return fieldName(it.Field)
	}
	return funcNames[it.Func] + "(" + fieldName(it.Field) + ")"
}
func (q *queryJ) render() {
	var items []string
	for _, it := range q.Items {
		items = append(items, it.text())
	}
	mname := "nometric"
	if q.Metric < len(metricNames) {
		mname = metricNames[q.Metric]
	}
	var conds []string
	for _, f := range q.Filter {
		key := []string{"host", "zone"}[f.Key]
		if len(f.Values) == 1 {
			conds = append(conds, fmt.Sprintf("%s='%s'", key, tagValue(f.Key, f.Values[0])))
		} else {
			var vs []string
			for _, v := range f.Values {
				vs = append(vs, "'"+tagValue(f.Key, v)+"'")
			}
			conds = append(conds, fmt.Sprintf("%s in (%s)", key, strings.Join(vs, ",")))
		}
	}
	conds = append(conds, fmt.Sprintf("time>='%s' and time<='%s'", tstr(q.Lo), tstr(q.Hi)))
	s := "select " + strings.Join(items, ",") + " from " + mname + " on 'ns' where " + strings.Join(conds, " and ")
	var gs []string
	for _, g := range q.Group {
		gs = append(gs, []string{"host", "zone"}[g])
	}
	if q.Ivl > 0 {
		gs = append(gs, fmt.Sprintf("time(%ds)", q.Ivl))
	}
	if len(gs) > 0 {
		s += " group by " + strings.Join(gs, ",")
	}
	if q.Order != nil {
		s += " order by " + q.Items[q.Order.Item].text()
		if q.Order.Desc {
			s += " desc"
		}
		q.SQL = s + fmt.Sprintf(" limit %d", q.Order.Limit)
		return
	}
	q.SQL = s + " limit 100"
}

// ---- observation ----

type entryJ struct {
	Item  int   `json:"item"`
	Group []int `json:"group"`
	Slot  int64 `json:"slot"`
	Val   int64 `json:"value"`
}
type obsJ struct {
	Err     string   `json:"err,omitempty"`
	Code    int      `json:"code"` // 0 answer, 1 timeout, 2 not found, 3 other error
	Entries []entryJ `json:"entries"`
	Order   []int    `json:"order"` // storage nodes in the order their answers were handed to the receiver
	Dropped []string `json:"dropped,omitempty"`
	Log     []string `json:"answers,omitempty"` // receiver<-sender, error text and payload size of every answer handed over
}

func indexOf(xs []string, v string) int {
	for i, x := range xs {
		if x == v {
			return i
		}
	}
	return 99
}

func (c *cluster) run(q *queryJ) (obsJ, string) {
	st, err := sql.Parse(q.SQL)
	if err != nil {
		return obsJ{Err: "parse: " + err.Error(), Code: 3}, "parse"
	}
	stq, ok := st.(*stmtpkg.Query)
	if !ok {
		return obsJ{Err: "not a query", Code: 3}, "parse"
	}
	search := func(timeout time.Duration) (interface{}, error) {
		c.dropped, c.log, c.deliv = nil, nil, nil
		c.held = map[string]*pending{}
		stop := make(chan struct{})
		done := make(chan struct{})
		go func() { c.pump(stop); close(done) }()
		root := c.brokers[0]
		sctx, cancel := context.WithTimeout(context.Background(), timeout)
		defer cancel()
		rs, err := query.MetricDataSearch(sctx, &models.ExecuteParam{Database: logicalDB, SQL: q.SQL}, stq,
			&query.SearchMgr{CurNode: *root.node, Choose: &stateMgr{c: c}, TaskMgr: root.taskMgr,
				TransportMgr: &transport{c: c, self: root.name}, Timeout: timeout})
		close(stop)
		<-done
		return rs, err
	}
	rs, err := search(c.timeout)
	if err != nil && strings.Contains(err.Error(), "timeout") && c.timeout < 5*time.Second {
		// the short deadline of the layouts that are expected to hang may be missed on a loaded machine: a statement
		// that really hangs does so again
		rs, err = search(4 * c.timeout)
	}
	var o obsJ
	if err != nil {
		o.Err = err.Error()
		switch {
		case strings.Contains(o.Err, "timeout"):
			o.Code = 1
		case strings.Contains(o.Err, "not found"):
			o.Code = 2
		default:
			o.Code = 3
		}
	} else {
		res := rs.(*commonmodels.ResultSet)
		if os.Getenv("C12_RAW") != "" {
			b, _ := json.Marshal(res)
			fmt.Println("RAW", q.SQL, string(b))
		}
		names := map[string]int{}
		for i, it := range q.Items {
			names[it.text()] = i
		}
		for _, s := range res.Series {
			var g []int
			for _, k := range q.Group {
				if k == 0 {
					g = append(g, indexOf(hosts, s.Tags["host"]))
				} else {
					g = append(g, indexOf(zones, s.Tags["zone"]))
				}
			}
			for name, pts := range s.Fields {
				item, ok := names[name]
				if !ok {
					return obsJ{Err: "unexpected column " + name, Code: 3}, "column"
				}
				for ts, v := range pts {
					if float64(int64(v)) != v {
						return obsJ{Err: fmt.Sprintf("non-integer value %v", v), Code: 3}, "value"
					}
					o.Entries = append(o.Entries, entryJ{Item: item, Group: g, Slot: (ts - res.StartTime) / res.Interval, Val: int64(v)})
				}
			}
		}
		sort.Slice(o.Entries, func(i, j int) bool {
			a, b := o.Entries[i], o.Entries[j]
			if a.Item != b.Item {
				return a.Item < b.Item
			}
			if fmt.Sprint(a.Group) != fmt.Sprint(b.Group) {
				return fmt.Sprint(a.Group) < fmt.Sprint(b.Group)
			}
			return a.Slot < b.Slot
		})
	}
	// the order at the first receiver that got answers of storage nodes
	recv := ""
	seen := map[int]bool{}
	for _, d := range c.deliv {
		idx := -1
		for i, s := range c.storage {
			if s.name == d[1] {
				idx = i
			}
		}
		if idx < 0 {
			continue
		}
		if recv == "" {
			recv = d[0]
		}
		if d[0] == recv && !seen[idx] {
			seen[idx] = true
			o.Order = append(o.Order, idx)
		}
	}
	for i := range c.storage {
		if !seen[i] {
			o.Order = append(o.Order, i)
		}
	}
	o.Dropped = c.dropped
	o.Log = c.log
	return o, ""
}

// ---- Coq rendering ----

func natList(xs []int) string {
	var ss []string
	for _, x := range xs {
		ss = append(ss, fmt.Sprintf("%d%%nat", x))
	}
	return vh.List(ss)
}

func pointsCoq(pts []point) string {
	var ss []string
	for _, p := range pts {
		for _, f := range sortedKeys(p.Vals) {
			ss = append(ss, fmt.Sprintf("mkPoint %d %s %s %d %s", p.Metric, natList([]int{p.Host, p.Zone}), vh.Z(int64(p.Slot)), f, vh.Z(int64(p.Vals[f]))))
		}
	}
	return vh.List(ss)
}

func queryCoq(q *queryJ, lo, hi, ratio int64) string {
	var items, filt []string
	for _, it := range q.Items {
		items = append(items, fmt.Sprintf("(%d%%nat, %d%%nat)", it.Field, it.Func))
	}
	for _, f := range q.Filter {
		filt = append(filt, fmt.Sprintf("(%d%%nat, %s)", f.Key, natList(f.Values)))
	}
	return fmt.Sprintf("(mkQuery %d %s %s %s %s %s %s)", q.Metric, vh.List(items), vh.List(filt), natList(q.Group), vh.Z(lo), vh.Z(hi), vh.Z(ratio))
}

func descCoq(lay layoutJ, routes map[[2]int]int, order []int) string {
	var keys [][2]int
	for k := range routes {
		keys = append(keys, k)
	}
	sort.Slice(keys, func(i, j int) bool {
		return keys[i][0] < keys[j][0] || (keys[i][0] == keys[j][0] && keys[i][1] < keys[j][1])
	})
	var rs []string
	for _, k := range keys {
		rs = append(rs, fmt.Sprintf("(%s, %d%%nat)", natList([]int{k[0], k[1]}), routes[k]))
	}
	return fmt.Sprintf("(mkDesc %s %d %s %d %d %s %s)", vh.List(rs), lay.NumShards, natList(lay.Place), lay.Nodes, lay.Brokers, vh.Bool(lay.Self), natList(order))
}

func obsCoq(o obsJ) string {
	if o.Code != 0 {
		return fmt.Sprintf("(OErr %d)", o.Code)
	}
	var es []string
	for _, e := range o.Entries {
		es = append(es, fmt.Sprintf("(%d%%nat, %s, %s, %s)", e.Item, natList(e.Group), vh.Z(e.Slot), vh.Z(e.Val)))
	}
	return "(ORes " + vh.List(es) + ")"
}

// ---- worlds ----

type world struct {
	Name    string    `json:"name"`
	Points  []point   `json:"points"`
	FlushAt int       `json:"flush_after,omitempty"` // flush everything after this many points (0: never)
	Dups    bool      `json:"rewrites,omitempty"`    // some (series, slot) are written more than once; statements then use the fields' own aggregation only
	Queries []*queryJ `json:"-"`
	Layouts []layoutJ `json:"-"`
}

// batchSize: how many points the batch that starts at point i holds (a pure function of the world, so that every layout
// of a world sees the same batches)
func (w *world) batchSize(i int) int {
	return 1 + (i*7+len(w.Points))%6
}

func genPoints(r *vh.Rand, dups bool) ([]point, int) {
	var pts []point
	used := map[[3]int]bool{}
	fresh := func(p point) bool {
		k := [3]int{p.Metric, p.Host, p.Slot}
		if used[k] && !dups {
			return false
		}
		used[k] = true
		return true
	}
	nh := r.Range(3, 8)
	n := r.Range(20, 55)
	span := 40
	if r.Chance(25) {
		span = 400 // second family hour
	}
	for i := 0; i < n; i++ {
		p := point{Metric: 0, Host: r.Intn(nh), Vals: map[int]int{}}
		p.Zone = p.Host % 3
		if span > 40 && i == 0 {
			p.Slot = 360 // the first slot of the second family hour holds data
		} else if span > 40 && r.Chance(40) {
			p.Slot = 355 + r.Intn(20)
		} else {
			p.Slot = r.Intn(40)
		}
		for f := 0; f < 5; f++ {
			if r.Chance(65) {
				p.Vals[f] = r.Range(1, 60)
			}
		}
		if len(p.Vals) == 0 {
			p.Vals[0] = r.Range(1, 60)
		}
		if fresh(p) {
			pts = append(pts, p)
		}
	}
	// series that do not carry the tag key host at all (only zone): with several shards some shard may hold nothing else
	if r.Chance(35) {
		for z := 0; z < 3; z++ {
			if !r.Chance(60) {
				continue
			}
			for j := r.Range(1, 3); j > 0; j-- {
				p := point{Metric: 0, Host: noTag, Zone: z, Slot: r.Intn(40), Vals: map[int]int{r.Intn(3): r.Range(1, 60)}}
				if !used[[3]int{0, noTag + z, p.Slot}] || dups {
					used[[3]int{0, noTag + z, p.Slot}] = true
					pts = append(pts, p)
				}
			}
		}
	}
	// a metric only one or two series have
	k := r.Range(1, 2)
	for i := 0; i < k*3; i++ {
		h := r.Intn(k)
		p := point{Metric: 1, Host: h, Zone: h % 3, Slot: r.Intn(30), Vals: map[int]int{0: r.Range(1, 60), 2: r.Range(1, 60)}}
		if fresh(p) {
			pts = append(pts, p)
		}
	}
	// a metric whose series each carry one field only
	if r.Chance(30) {
		for h := 0; h < nh; h++ {
			for j := 0; j < 2; j++ {
				p := point{Metric: 2, Host: h, Zone: h % 3, Slot: r.Intn(30), Vals: map[int]int{h % 2: r.Range(1, 60)}}
				if fresh(p) {
					pts = append(pts, p)
				}
			}
		}
	}
	// shuffle so that the metrics interleave
	perm := r.Perm(len(pts))
	out := make([]point, len(pts))
	for i, j := range perm {
		out[i] = pts[j]
	}
	flushAt := 0
	if r.Chance(35) {
		flushAt = r.Range(5, len(out)-1)
	}
	return out, flushAt
}

func genQuery(r *vh.Rand, pts []point, dups, flushed bool) *queryJ {
	q := &queryJ{Metric: 0, Lo: 0, Hi: 60}
	hasM3 := false
	maxSlot := 0
	for _, p := range pts {
		if p.Metric == 2 {
			hasM3 = true
		}
		if p.Slot > maxSlot {
			maxSlot = p.Slot
		}
	}
	switch {
	case r.Chance(12):
		q.Metric = 1
	case hasM3 && r.Chance(25):
		q.Metric = 2
	case r.Chance(3):
		q.Metric = 9
	}
	pool := []int{0, 1, 2, 3, 4}
	if dups || flushed {
		// a slot's value spread over several physical sources (files, memory block and window) is C11's subject:
		// these worlds stay with the order-insensitive field types
		pool = []int{0, 1, 2}
	}
	if q.Metric == 1 {
		pool = []int{0, 2}
	}
	if q.Metric == 2 {
		pool = []int{0, 1}
	}
	n := r.Range(1, 3)
	seen := map[string]bool{}
	for i := 0; i < n; i++ {
		it := itemJ{Field: pool[r.Intn(len(pool))]}
		if r.Chance(50) {
			// functions the field type supports (series/field/type.go IsFuncSupported)
			sup := [][]int{{1, 2, 3}, {2}, {3}, {1, 2, 3, 4}, {1, 2, 3, 5}}[it.Field]
			it.Func = sup[r.Intn(len(sup))]
			if r.Chance(3) {
				it.Func = r.Range(1, 5)
			}
		}
		if (it.Field == 3 || it.Field == 4) && r.Chance(60) {
			// last/first fields mostly with an order-insensitive function, the rest is for the open finding
			it.Func = r.Range(1, 3)
		}
		if dups {
			it.Func = 0
		}
		if r.Chance(2) {
			it.Field, it.Func = 8, 0
		}
		if seen[it.text()] {
			continue
		}
		seen[it.text()] = true
		q.Items = append(q.Items, it)
	}
	if r.Chance(45) {
		f := filterJ{Key: r.Intn(2)}
		m := r.Range(1, 3)
		for i := 0; i < m; i++ {
			if f.Key == 0 {
				f.Values = append(f.Values, r.Intn(9)) // 8 = a host nobody wrote
			} else {
				f.Values = append(f.Values, r.Intn(4))
			}
		}
		q.Filter = append(q.Filter, f)
		if r.Chance(20) {
			q.Filter = append(q.Filter, filterJ{Key: 1 - f.Key, Values: []int{r.Intn(3)}})
		}
	}
	switch r.Intn(10) {
	case 0, 1, 2:
		q.Group = []int{0}
	case 3, 4:
		q.Group = []int{1}
	case 5:
		q.Group = []int{0, 1}
	case 6:
		q.Group = []int{1, 0}
	}
	if r.Chance(30) {
		q.Ivl = []int{30, 60, 60, 120}[r.Intn(4)]
	}
	if orderByStatements && len(q.Group) > 0 && r.Chance(20) {
		// order by a selected plain field of an order-insensitive type, keep the best 1-3 groups
		for i, it := range q.Items {
			if it.Func == 0 && it.Field <= 2 {
				// descending here; half of the statements whose range covers everything written are turned to ascending below
				q.Order = &orderJ{Item: i, Desc: true, Limit: r.Range(1, 3)}
				break
			}
		}
	}
	for _, it := range q.Items {
		// last / first over several storage slots of one series is decided by the order of the physical sources
		// (memory block, write window, files), C11's subject: such items keep the storage interval
		if lastFirstAtStorageInterval && (it.Field == 3 || it.Field == 4) && (it.Func == 0 || it.Func == 4 || it.Func == 5) {
			q.Ivl = 0
		}
	}
	switch r.Intn(6) {
	case 2:
		q.Lo, q.Hi = 0, 60
		if maxSlot >= 360 {
			// the range ends (inclusively) on the first slot of the next family, or starts there
			if r.Bool() {
				q.Lo, q.Hi = r.Range(0, 358), 360
			} else {
				q.Lo, q.Hi = 360, maxSlot+3
			}
		}
	case 0:
		q.Lo, q.Hi = r.Range(1, 12), r.Range(20, 45)
	case 1:
		q.Lo, q.Hi = 0, maxSlot+5
	default:
		q.Lo, q.Hi = 0, 60
		if maxSlot > 60 {
			q.Hi = maxSlot + 6
		}
	}
	if q.Order != nil && q.Lo == 0 && q.Hi > maxSlot && ascendingOrder && r.Bool() {
		// ascending when the range covers everything written (a group without the order field ranks 0 and comes first)
		q.Order.Desc = false
	}
	q.render()
	return q
}

// ascendingOrder: order by ... asc limit n is generated when the range covers every written slot.
var ascendingOrder = true

func genLayout(r *vh.Rand) layoutJ {
	lay := layoutJ{NumShards: []int{1, 2, 3, 4, 5, 8}[r.Intn(6)]}
	lay.Nodes = r.Range(1, 3)
	if lay.Nodes > lay.NumShards {
		lay.Nodes = lay.NumShards
	}
	lay.Place = make([]int, lay.NumShards)
	perm := r.Perm(lay.NumShards)
	for i, sh := range perm {
		if i < lay.Nodes {
			lay.Place[sh] = i // every node owns a shard
		} else {
			lay.Place[sh] = r.Intn(lay.Nodes)
		}
	}
	switch x := r.Intn(100); {
	case x < 55:
	case x < 85:
		lay.Brokers = 1
	case x < 93:
		lay.Brokers = 2
	default:
		lay.Self = true
	}
	return lay
}

// lastFirstAtStorageInterval: statements with a last/first item do not group by time (C12); the query worlds of C11
// switch it off.
var lastFirstAtStorageInterval = true

// orderByStatements: a fifth of the group-by statements get order by ... limit (C12 only).
var orderByStatements = true

var refLayout = layoutJ{NumShards: 1, Place: []int{0}, Nodes: 1}

type runResult struct {
	obs    []obsJ // per query
	routes map[[2]int]int
	fail   string
}

func runWorld(dir string, w *world, lay layoutJ, r *vh.Rand, only func(qi int, q *queryJ) bool) runResult {
	res := runResult{routes: map[[2]int]int{}}
	timeout := 20 * time.Second
	if lay.Brokers >= 2 || lay.Self {
		timeout = 1200 * time.Millisecond
	}
	c, err := newCluster(dir, lay, intervals, timeout)
	if err != nil {
		res.fail = "cluster: " + err.Error()
		return res
	}
	defer func() { c.close(); _ = os.RemoveAll(dir) }()
	// the points go in as broker batches of 1-6 points (cut at the flush), routed by the real batch iterators
	flushAt := w.FlushAt
	if os.Getenv("C12_NOFLUSH") != "" {
		flushAt = 0
	}
	for i := 0; i < len(w.Points); {
		n := w.batchSize(i)
		if flushAt > i && i+n > flushAt {
			n = flushAt - i
		}
		if i+n > len(w.Points) {
			n = len(w.Points) - i
		}
		var pms []*protoMetricsV1.Metric
		for _, p := range w.Points[i : i+n] {
			pms = append(pms, p.proto())
		}
		routes, err := c.writeMany(pms)
		if err != nil {
			res.fail = "write: " + err.Error()
			return res
		}
		if len(routes) != n {
			res.fail = fmt.Sprintf("a batch of %d points handed %d rows to the shards", n, len(routes))
			return res
		}
		for _, rr := range routes {
			k := [2]int{indexOf(hosts, rr.Host), indexOf(zones, rr.Zone)}
			if old, ok := res.routes[k]; ok && old != rr.Shard {
				res.fail = fmt.Sprintf("series %v routed to shard %d and to shard %d", k, old, rr.Shard)
				return res
			}
			res.routes[k] = rr.Shard
		}
		i += n
		if flushAt > 0 && i == flushAt {
			if err := c.flushAll(); err != nil {
				res.fail = "flush: " + err.Error()
				return res
			}
		}
	}
	c.order = func(n int) []int { return r.Perm(n) }
	for qi, q := range w.Queries {
		if only != nil && !only(qi, q) {
			res.obs = append(res.obs, obsJ{Code: 99})
			continue
		}
		o, fail := c.run(q)
		if fail != "" {
			res.fail = fail + ": " + o.Err
			return res
		}
		if q.Order != nil && o.Code == 0 {
			// which groups an order by ... limit keeps must not depend on the order in which the groups reach the heap (the
			// iteration order of a Go map, different from execution to execution): the statement is asked again a few times
			// and an answer that differs from the first one is the one reported
			first := fmt.Sprint(o.Entries)
			for rep := 0; rep < 6; rep++ {
				o2, fail2 := c.run(q)
				if fail2 != "" || o2.Code != 0 {
					break
				}
				if fmt.Sprint(o2.Entries) != first {
					o = o2
					break
				}
			}
		}
		res.obs = append(res.obs, o)
	}
	return res
}

// time range and interval as the root computes them for the statement
func planOf(q *queryJ) (lo, hi, ratio int64, err error) {
	st, err := sql.Parse(q.SQL)
	if err != nil {
		return 0, 0, 0, err
	}
	stq := st.(*stmtpkg.Query)
	querycontext.VerifCalcTimeRangeAndInterval(stq, models.Database{Name: logicalDB, Option: &option.DatabaseOption{Intervals: intervals}})
	lo = (stq.TimeRange.Start - baseTime) / 10000
	hi = (stq.TimeRange.End - baseTime) / 10000
	return lo, hi, int64(stq.IntervalRatio), nil
}

func doWorld(out *vh.Out, root string, wi int, w *world, r *vh.Rand) {
	ref := runWorld(filepath.Join(root, fmt.Sprintf("w%d-ref", wi)), w, refLayout, r, nil)
	if ref.fail != "" {
		out.Violation(0, "harness", "reference layout: "+ref.fail, w)
		return
	}
	out.Coqf("Definition w%d_pts : list point := %s.\n", wi, pointsCoq(w.Points))
	for li, lay := range w.Layouts {
		broken := lay.Brokers >= 2 || lay.Self
		groupRuns := 0
		only := func(qi int, q *queryJ) bool {
			// a layout whose group-by statements run into the timeout answers two of them only (each costs the timeout)
			if broken && len(q.Group) > 0 && lay.Nodes > 1 {
				groupRuns++
				return groupRuns <= 2
			}
			return true
		}
		res := runWorld(filepath.Join(root, fmt.Sprintf("w%d-l%d", wi, li)), w, lay, r, only)
		if res.fail != "" {
			out.Violation(0, "harness", fmt.Sprintf("layout %+v: %s", lay, res.fail), w)
			continue
		}
		for qi, q := range w.Queries {
			o := res.obs[qi]
			if o.Code == 99 {
				continue
			}
			lo, hi, ratio, err := planOf(q)
			if err != nil {
				out.Violation(0, "harness", "plan: "+err.Error(), q)
				continue
			}
			oref := ref.obs[qi]
			out.Count(fmt.Sprintf("shards:%d", lay.NumShards))
			out.Count(fmt.Sprintf("nodes:%d", lay.Nodes))
			switch {
			case lay.Self:
				out.Count("compute:root-itself")
			default:
				out.Count(fmt.Sprintf("compute-brokers:%d", lay.Brokers))
			}
			out.Count(fmt.Sprintf("metric:%d", q.Metric))
			out.Count(fmt.Sprintf("group-keys:%d", len(q.Group)))
			out.Count(fmt.Sprintf("ratio:%d", ratio))
			out.Count(fmt.Sprintf("ref-outcome:%d", oref.Code))
			out.Count(fmt.Sprintf("outcome:%d", o.Code))
			if w.FlushAt > 0 {
				out.Count("world-with-flush")
			}
			if w.Dups {
				out.Count("world-with-rewrites")
			}
			for _, it := range q.Items {
				out.Count("item:" + funcNames[it.Func] + "/" + fieldName(it.Field))
			}
			differs := 0
			if lay.NumShards > 1 {
				differs++
			}
			if lay.Nodes > 1 {
				differs++
			}
			if lay.Brokers > 0 || lay.Self {
				differs++
			}
			idx := out.Case(map[string]interface{}{"kind": "pair", "world": w.Name, "points": w.Points, "flush_after": w.FlushAt, "rewrites": w.Dups,
				"query": q, "plan": map[string]int64{"lo": lo, "hi": hi, "ratio": ratio},
				"layout": lay, "routes": fmt.Sprint(res.routes), "reference": oref, "observed": o},
				differs >= 2 && len(oref.Entries) > 0)
			if q.Order != nil {
				out.Count("order-by-limit")
				top := fmt.Sprintf("(mkTop %d %s %d %d)", q.Order.Item, vh.Bool(q.Order.Desc), q.Items[q.Order.Item].Field+1, q.Order.Limit)
				out.Check(idx, fmt.Sprintf("check_pair_top w%d_pts %s %s\n %s\n %s\n %s\n %s", wi, queryCoq(q, lo, hi, ratio), top,
					descCoq(refLayout, ref.routes, oref.Order), descCoq(lay, res.routes, o.Order), obsCoq(oref), obsCoq(o)))
				continue
			}
			out.Check(idx, fmt.Sprintf("check_pair w%d_pts %s\n %s\n %s\n %s\n %s", wi, queryCoq(q, lo, hi, ratio),
				descCoq(refLayout, ref.routes, oref.Order), descCoq(lay, res.routes, o.Order), obsCoq(oref), obsCoq(o)))
		}
	}
}

func directed() []*world {
	var ws []*world
	mk := func(q queryJ) *queryJ { q.render(); return &q }
	var pts []point
	for i := 0; i < 24; i++ {
		h := i % 6
		pts = append(pts, point{Metric: 0, Host: h, Zone: h % 3, Slot: (i * 7) % 30, Vals: map[int]int{0: 3 + i, 1: 40 - i, 2: 5 + 2*i, 3: i + 1, 4: 50 - i}})
	}
	for h := 0; h < 6; h++ {
		pts = append(pts, point{Metric: 2, Host: h, Zone: h % 3, Slot: 3 + h, Vals: map[int]int{h % 2: 5 + h}})
	}
	ws = append(ws, &world{Name: "directed: several functions of one field, every aggregate type, down-sampling", Points: pts,
		Queries: []*queryJ{
			mk(queryJ{Metric: 0, Items: []itemJ{{0, 1}, {0, 3}}, Lo: 0, Hi: 40}),
			mk(queryJ{Metric: 0, Items: []itemJ{{0, 0}, {0, 3}, {0, 2}}, Group: []int{1}, Lo: 0, Hi: 40, Ivl: 60}),
			mk(queryJ{Metric: 0, Items: []itemJ{{1, 0}, {1, 3}, {2, 2}, {2, 0}}, Group: []int{0}, Lo: 2, Hi: 33, Ivl: 30}),
			mk(queryJ{Metric: 0, Items: []itemJ{{3, 0}, {4, 0}, {3, 1}}, Group: []int{0, 1}, Lo: 0, Hi: 40}),
			mk(queryJ{Metric: 0, Items: []itemJ{{0, 0}, {2, 0}}, Group: []int{0}, Lo: 0, Hi: 40, Order: &orderJ{Item: 0, Desc: true, Limit: 2}}),
			mk(queryJ{Metric: 0, Items: []itemJ{{1, 0}}, Group: []int{0, 1}, Lo: 0, Hi: 40, Order: &orderJ{Item: 0, Desc: true, Limit: 3}}),
		},
		Layouts: []layoutJ{
			{NumShards: 4, Place: []int{0, 0, 0, 0}, Nodes: 1},
			{NumShards: 4, Place: []int{0, 1, 0, 1}, Nodes: 2},
			{NumShards: 5, Place: []int{0, 1, 2, 2, 1}, Nodes: 3, Brokers: 1},
		}})
	pts2 := append([]point{}, pts...)
	for j := 0; j < 5; j++ {
		for h := 0; h < 6; h++ {
			// six series write the same slots of the last field
			pts2 = append(pts2, point{Metric: 0, Host: h, Zone: h % 3, Slot: 31 + j, Vals: map[int]int{3: 10*h + j + 1}})
		}
	}
	ws = append(ws, &world{Name: "directed: behaviours on record (last over several series, a node that lacks a selected field, compute brokers)", Points: pts2,
		Queries: []*queryJ{
			mk(queryJ{Metric: 0, Items: []itemJ{{3, 0}}, Lo: 0, Hi: 40}),
			mk(queryJ{Metric: 2, Items: []itemJ{{0, 0}, {1, 0}}, Lo: 0, Hi: 40}),
			mk(queryJ{Metric: 0, Items: []itemJ{{0, 0}}, Group: []int{0}, Lo: 0, Hi: 40}),
		},
		Layouts: []layoutJ{
			{NumShards: 4, Place: []int{0, 1, 2, 2}, Nodes: 3},
			{NumShards: 4, Place: []int{0, 1, 2, 2}, Nodes: 3, Brokers: 2},
			{NumShards: 4, Place: []int{0, 1, 2, 2}, Nodes: 3, Self: true},
		}})
	var pts3 []point
	for i := 0; i < 12; i++ {
		h := i % 2
		pts3 = append(pts3, point{Metric: 0, Host: h, Zone: h, Slot: 2 + i, Vals: map[int]int{0: 1 + i, 2: 30 - i}})
	}
	for z := 0; z < 3; z++ {
		for j := 0; j < 3; j++ {
			pts3 = append(pts3, point{Metric: 0, Host: noTag, Zone: z, Slot: 3 + 4*j + z, Vals: map[int]int{0: 100 * (z + 1), 2: 7 + j}})
		}
	}
	ws = append(ws, &world{Name: "directed: shards that hold only series without the group-by tag key", Points: pts3,
		Queries: []*queryJ{
			mk(queryJ{Metric: 0, Items: []itemJ{{0, 0}}, Group: []int{0}, Lo: 0, Hi: 40}),
			mk(queryJ{Metric: 0, Items: []itemJ{{0, 0}, {2, 0}}, Group: []int{1}, Lo: 0, Hi: 40}),
			mk(queryJ{Metric: 0, Items: []itemJ{{0, 0}}, Lo: 0, Hi: 40}),
			mk(queryJ{Metric: 0, Items: []itemJ{{2, 0}}, Group: []int{0, 1}, Lo: 0, Hi: 40}),
		},
		Layouts: []layoutJ{
			{NumShards: 8, Place: []int{0, 0, 0, 0, 0, 0, 0, 0}, Nodes: 1},
			{NumShards: 5, Place: []int{0, 0, 0, 0, 0}, Nodes: 1},
			{NumShards: 8, Place: []int{0, 1, 0, 1, 0, 1, 0, 1}, Nodes: 2},
		}})
	return ws
}

// MainC12 is the C12 harness.
func MainC12() {
	cfg := vh.ParseFlags()
	baseTime = time.Date(2023, 6, 15, 10, 0, 0, 0, time.Now().Location()).UnixMilli()
	r := vh.NewRand(cfg.Seed)
	out := vh.NewOut(cfg.Out, "From Coq Require Import List ZArith Bool.\nImport ListNotations.\nFrom LinDBV.C12 Require Import Model Check.\nOpen Scope Z_scope.\n")
	out.ShardSize = 40
	root, err := os.MkdirTemp("", "verif-c12-")
	if err != nil {
		panic(err)
	}
	defer os.RemoveAll(root)
	wi := 0
	for _, w := range directed() {
		doWorld(out, root, wi, w, r)
		wi++
	}
	onlyWorld := -1
	if v := os.Getenv("C12_WORLD"); v != "" {
		fmt.Sscanf(v, "%d", &onlyWorld)
	}
	for i := 0; i < cfg.N; i++ {
		// every world draws from a stream of its own, so one world can be run again alone (C12_WORLD=<index>)
		r = vh.NewRand(cfg.Seed*1000003 + uint64(i) + 17)
		if onlyWorld >= 0 && i != onlyWorld {
			wi++
			continue
		}
		dups := r.Chance(25)
		pts, flushAt := genPoints(r, dups)
		w := &world{Name: fmt.Sprintf("random %d", i), Points: pts, FlushAt: flushAt, Dups: dups}
		nq := r.Range(5, 8)
		for j := 0; j < nq; j++ {
			w.Queries = append(w.Queries, genQuery(r, pts, dups, flushAt > 0))
		}
		nl := r.Range(2, 4)
		for j := 0; j < nl; j++ {
			w.Layouts = append(w.Layouts, genLayout(r))
		}
		doWorld(out, root, wi, w, r)
		wi++
	}
	out.Notes = append(out.Notes,
		"one engine per layout; every storage node owns a database of its own (metadata, index, shards) inside it and is shown to its leaf processor under the logical database name",
		"real code on the path: broker shard iterator (routing), DataFamily.WriteRows, query.MetricDataSearch with RootMetricContext, physical plan and task-send stages, intermediate and leaf task processors, task managers, the leaf pipeline (metadata lookup, tag filtering, grouping, data load, down-sampling, reduce), TimeSeriesList encoding, root merge and expression evaluation; replaced: the gRPC streams (requests are handed to the processors, responses are collected and handed to the receiver's task manager in a picked order) and the state manager's Choose / GetDatabaseCfg",
		"statements without order-by carry limit 100 (the default of 20 groups picks groups in map order); order by <selected sum/min/max field> [desc] limit 1-3 (ascending only when the range covers every written slot) is generated for a fifth of the group-by statements and skipped by the check when two groups have equal ranks")
	out.Finish()
}
