// In-process cluster for C12: one real tsdb engine in which every storage "node" owns its own database (own
// metadata, own index, own shards), the real leaf and intermediate task processors, the real task managers and the
// real root search (query.MetricDataSearch). Only the transport is replaced: requests are handed to the target's
// processor, responses are collected per receiver and delivered to its task manager in an order the harness picks.
package qh

import (
	"context"
	"fmt"
	"os"
	"path/filepath"
	"sort"
	"strings"
	"sync"
	"time"

	"github.com/lindb/common/pkg/ltoml"
	flatMetricsV1 "github.com/lindb/common/proto/gen/v1/flatMetricsV1"
	protoMetricsV1 "github.com/lindb/common/proto/gen/v1/linmetrics"

	"github.com/lindb/lindb/config"
	"github.com/lindb/lindb/coordinator/broker"
	"github.com/lindb/lindb/flow"
	"github.com/lindb/lindb/models"
	"github.com/lindb/lindb/pkg/option"
	"github.com/lindb/lindb/pkg/timeutil"
	protoCommonV1 "github.com/lindb/lindb/proto/gen/v1/common"
	"github.com/lindb/lindb/query"
	"github.com/lindb/lindb/series/metric"
	"github.com/lindb/lindb/tsdb"

	"lindbverif/node"
)

const logicalDB = "verifdb"

// layout of one cluster
type layoutJ struct {
	NumShards int   `json:"shards"`
	Place     []int `json:"place"`          // shard index -> storage node index
	Nodes     int   `json:"nodes"`          // storage nodes
	Self      bool  `json:"self,omitempty"` // the root itself is among the live brokers the chooser offers
	Brokers   int   `json:"brokers"`        // live brokers besides the root the chooser offers as compute nodes (0: no intermediate level)
}

type storageNode struct {
	name   string
	dbName string
	shards []models.ShardID
	db     tsdb.Database
	proc   query.TaskProcessor
}

type brokerNode struct {
	name    string
	node    *models.StatelessNode
	taskMgr query.TaskManager
	proc    query.TaskProcessor // intermediate processor
}

// nodeEngine shows one storage node's database under the logical database name.
type nodeEngine struct {
	tsdb.Engine
	dbName string
}

func (e *nodeEngine) GetDatabase(name string) (tsdb.Database, bool) {
	if name != logicalDB {
		return nil, false
	}
	return e.Engine.GetDatabase(e.dbName)
}

type envelope struct {
	to, from string
	resp     *protoCommonV1.TaskResponse
}

type cluster struct {
	lay       layoutJ
	engine    tsdb.Engine
	intervals option.Intervals
	storage   []*storageNode
	brokers   []*brokerNode // brokers[0] is the root
	timeout   time.Duration

	mu      sync.Mutex
	mailbox []envelope
	sent    map[string]int // request id + receiver -> requests handed to leaf processors that will answer that receiver
	order   func(n int) []int
	dropped []string    // responses no task context accepted
	log     []string    // delivery log
	deliv   [][2]string // (to, from) in the order handed over
	held    map[string]*pending
}

// ---- transport ----

// stream to one receiver as seen from one sender
type respStream struct {
	protoCommonV1.TaskService_HandleServer
	c        *cluster
	from, to string
}

func (s *respStream) Send(resp *protoCommonV1.TaskResponse) error {
	s.c.mu.Lock()
	s.c.mailbox = append(s.c.mailbox, envelope{to: s.to, from: s.from, resp: resp})
	s.c.mu.Unlock()
	return nil
}
func (s *respStream) Context() context.Context { return context.Background() }

// task server factory of one node: the streams to the nodes that may receive its responses
type serverFactory struct {
	c    *cluster
	self string
}

func (f *serverFactory) GetStream(n string) protoCommonV1.TaskService_HandleServer {
	return &respStream{c: f.c, from: f.self, to: n}
}
func (f *serverFactory) Register(string, protoCommonV1.TaskService_HandleServer) int64 { return 0 }
func (f *serverFactory) Deregister(int64, string) bool                                 { return true }
func (f *serverFactory) Nodes() []models.Node                                          { return nil }

// transport manager of one broker
type transport struct {
	c    *cluster
	self string
}

func (t *transport) SendRequest(target string, req *protoCommonV1.TaskRequest) error {
	c := t.c
	taskCtx := flow.NewTaskContextWithTimeout(context.Background(), c.timeout)
	stream := &respStream{c: c, from: target, to: t.self}
	var proc query.TaskProcessor
	for _, s := range c.storage {
		if s.name == target {
			proc = s.proc
		}
	}
	for _, b := range c.brokers {
		if b.name == target {
			proc = b.proc
		}
	}
	if proc == nil {
		return fmt.Errorf("no such node %s", target)
	}
	go func() {
		// what query.TaskHandler does with a request
		if err := proc.Process(taskCtx, stream, req); err != nil {
			_ = stream.Send(&protoCommonV1.TaskResponse{RequestID: req.RequestID, Completed: true, ErrMsg: err.Error()})
		}
	}()
	return nil
}

func (t *transport) SendResponse(target string, resp *protoCommonV1.TaskResponse) error {
	return (&respStream{c: t.c, from: t.self, to: target}).Send(resp)
}

// ---- state manager of the brokers (chooser and database configuration only) ----

type stateMgr struct {
	broker.StateManager
	c *cluster
}

func (m *stateMgr) GetDatabaseCfg(name string) (models.Database, bool) {
	if name != logicalDB {
		return models.Database{}, false
	}
	return models.Database{Name: logicalDB, NumOfShard: m.c.lay.NumShards, ReplicaFactor: 1,
		Option: &option.DatabaseOption{Intervals: m.c.intervals, AutoCreateNS: true}}, true
}

// Choose follows coordinator/broker stateManager.Choose: compute nodes when more than one is asked for and there is
// more than one storage node (and, here, the layout offers brokers), else the storage nodes with their shards.
func (m *stateMgr) Choose(database string, numOfNodes int) ([]*models.PhysicalPlan, error) {
	c := m.c
	if numOfNodes > 1 && len(c.storage) > 1 && (c.lay.Brokers > 0 || c.lay.Self) {
		var live []models.StatelessNode
		if c.lay.Self {
			live = append(live, *c.brokers[0].node)
		}
		for _, b := range c.brokers[1:] {
			live = append(live, *b.node)
		}
		return []*models.PhysicalPlan{flow.BuildPhysicalPlan(database, live, numOfNodes)}, nil
	}
	plan := &models.PhysicalPlan{Database: database}
	for _, s := range c.storage {
		if len(s.shards) == 0 {
			continue
		}
		plan.AddTarget(&models.Target{Indicator: s.name, ShardIDs: s.shards})
	}
	return []*models.PhysicalPlan{plan}, nil
}

// ---- construction ----

func setConfig(dir string) {
	cfg := &config.StorageBase{TSDB: config.TSDB{
		Dir:                      filepath.Join(dir, "tsdb"),
		MaxMemDBSize:             ltoml.Size(1 << 30),
		MutableMemDBTTL:          ltoml.Duration(time.Hour),
		MaxMemUsageBeforeFlush:   0.99,
		TargetMemUsageAfterFlush: 0.9,
		FlushConcurrency:         1,
		SeriesSequenceCache:      1000,
		MetaSequenceCache:        1000,
	}}
	config.SetGlobalStorageConfig(cfg)
}

func newCluster(dir string, lay layoutJ, intervals option.Intervals, timeout time.Duration) (*cluster, error) {
	setConfig(dir)
	engine, err := tsdb.NewEngine()
	if err != nil {
		return nil, err
	}
	c := &cluster{lay: lay, engine: engine, intervals: intervals, timeout: timeout, sent: map[string]int{}}
	for j := 0; j < lay.Nodes; j++ {
		s := &storageNode{name: fmt.Sprintf("10.0.1.%d:2891", j+1), dbName: fmt.Sprintf("n%d", j+1)}
		for sh, nd := range lay.Place {
			if nd == j {
				s.shards = append(s.shards, models.ShardID(sh))
			}
		}
		if len(s.shards) > 0 {
			opt := &option.DatabaseOption{Intervals: intervals, AutoCreateNS: true}
			if err := engine.CreateShards(s.dbName, opt, s.shards...); err != nil {
				return nil, err
			}
			db, ok := engine.GetDatabase(s.dbName)
			if !ok {
				return nil, fmt.Errorf("database %s missing", s.dbName)
			}
			s.db = db
		}
		sn := &models.StatefulNode{StatelessNode: models.StatelessNode{HostIP: fmt.Sprintf("10.0.1.%d", j+1), GRPCPort: 2891}, ID: models.NodeID(j + 1)}
		if sn.Indicator() != s.name {
			return nil, fmt.Errorf("indicator %s != %s", sn.Indicator(), s.name)
		}
		s.proc = query.NewLeafTaskProcessor(sn, &nodeEngine{Engine: engine, dbName: s.dbName}, &serverFactory{c: c, self: s.name})
		c.storage = append(c.storage, s)
	}
	sm := &stateMgr{c: c}
	for i := 0; i <= lay.Brokers; i++ {
		n := &models.StatelessNode{HostIP: fmt.Sprintf("10.0.0.%d", i+1), GRPCPort: 9001}
		b := &brokerNode{name: n.Indicator(), node: n}
		b.taskMgr = query.VerifNewTaskManager("verif-task-"+b.name, 1)
		b.proc = query.NewIntermediateTaskProcessor(*n, timeout, sm, b.taskMgr, &transport{c: c, self: b.name})
		c.brokers = append(c.brokers, b)
	}
	return c, nil
}

func (c *cluster) close() {
	if c.engine != nil {
		c.engine.Close()
		c.engine = nil
	}
}

func (c *cluster) broker(name string) *brokerNode {
	for _, b := range c.brokers {
		if b.name == name {
			return b
		}
	}
	return nil
}

// ---- writing ----

// write routes one metric with the broker's shard iterator (jump hash of the tags hash over the shard count) and
// writes it into that shard of the owning node. Returns the shard index.
func (c *cluster) write(pm *protoMetricsV1.Metric) (int, error) {
	routes, err := c.writeMany([]*protoMetricsV1.Metric{pm})
	if err != nil || len(routes) == 0 {
		return -1, err
	}
	return routes[0].Shard, nil
}

// rowRoute: the shard a row of a batch was handed to, with the row's host / zone tag values
type rowRoute struct {
	Host, Zone string
	Shard      int
}

// writeMany writes the points as ONE broker batch, the way a broker's write handler does: the pooled batch, its shard
// group iterator and the (shared) family iterator of the real code route the rows.
func (c *cluster) writeMany(pms []*protoMetricsV1.Metric) ([]rowRoute, error) {
	batch := metric.NewBrokerBatchRows()
	defer batch.Release()
	for _, pm := range pms {
		block := node.Block(pm)
		if err := batch.TryAppend(func(row *metric.BrokerRow) error { row.FromBlock(block); return nil }); err != nil {
			return nil, err
		}
	}
	var routes []rowRoute
	it := batch.NewShardGroupIterator(int32(c.lay.NumShards))
	for it.HasRowsForNextShard() {
		idx, famIt := it.FamilyRowsForNextShard(c.intervals[0].Interval)
		for famIt.HasNextFamily() {
			familyTime, rows := famIt.NextFamily()
			for i := range rows {
				m := rows[i].Metric()
				rr := rowRoute{Shard: idx}
				var kv flatMetricsV1.KeyValue
				for j := 0; j < m.KeyValuesLength(); j++ {
					m.KeyValues(&kv, j)
					switch string(kv.Key()) {
					case "host":
						rr.Host = string(kv.Value())
					case "zone":
						rr.Zone = string(kv.Value())
					}
				}
				routes = append(routes, rr)
			}
			s := c.storage[c.lay.Place[idx]]
			shard, ok := s.db.GetShard(models.ShardID(idx))
			if !ok {
				return nil, fmt.Errorf("shard %d not on node %s", idx, s.name)
			}
			fam, err := shard.GetOrCrateDataFamily(familyTime)
			if err != nil {
				return nil, err
			}
			for i := range rows {
				var buf []byte
				w := &sliceWriter{b: &buf}
				if _, err := rows[i].WriteTo(w); err != nil {
					return nil, err
				}
				var br metric.StorageBatchRows
				br.UnmarshalRows(buf)
				srows := br.Rows()
				if err := fam.WriteRows(srows); err != nil {
					return nil, err
				}
			}
		}
	}
	return routes, nil
}

type sliceWriter struct{ b *[]byte }

func (w *sliceWriter) Write(p []byte) (int, error) { *w.b = append(*w.b, p...); return len(p), nil }

// flushAll flushes metadata, index and every data family of every node.
func (c *cluster) flushAll() error {
	for _, s := range c.storage {
		if s.db == nil {
			continue
		}
		mode := os.Getenv("C12_FLUSH")
		if mode == "" || strings.Contains(mode, "meta") {
			if err := s.db.FlushMeta(); err != nil {
				return err
			}
			s.db.WaitFlushMetaCompleted()
		}
		for _, sid := range s.shards {
			shard, _ := s.db.GetShard(sid)
			if mode == "" || strings.Contains(mode, "index") {
				if err := shard.FlushIndex(); err != nil {
					return err
				}
				shard.WaitFlushIndexCompleted()
			}
			if !(mode == "" || strings.Contains(mode, "data")) {
				continue
			}
			for _, fam := range shard.GetDataFamilies(timeutil.Day, timeutil.TimeRange{Start: 0, End: 1 << 62}) {
				if err := fam.Flush(); err != nil {
					return err
				}
			}
		}
	}
	return nil
}

// ---- delivery ----

// deliverAll hands the collected responses to their receivers until nothing is in flight: the responses for one
// receiver are handed over in the order c.order picks once every leaf that was asked has answered that receiver.
func (c *cluster) pump(stop <-chan struct{}) {
	for {
		select {
		case <-stop:
			return
		default:
		}
		c.mu.Lock()
		box := c.mailbox
		c.mailbox = nil
		c.mu.Unlock()
		if len(box) == 0 {
			time.Sleep(200 * time.Microsecond)
			continue
		}
		c.deliver(box)
	}
}

// held responses per receiver, released when all expected leaf answers are there
type pending struct {
	envs []envelope
}

func (c *cluster) deliver(box []envelope) {
	held := c.held
	for _, e := range box {
		key := e.to + "|" + e.resp.RequestID
		p := held[key]
		if p == nil {
			p = &pending{}
			held[key] = p
		}
		p.envs = append(p.envs, e)
	}
	var keys []string
	for k := range held {
		keys = append(keys, k)
	}
	sort.Strings(keys)
	for _, k := range keys {
		p := held[k]
		want := c.expected(p.envs[0])
		if len(p.envs) < want {
			continue
		}
		delete(held, k)
		sort.Slice(p.envs, func(i, j int) bool { return p.envs[i].from < p.envs[j].from })
		perm := c.order(len(p.envs))
		for _, i := range perm {
			e := p.envs[i]
			b := c.broker(e.to)
			c.log = append(c.log, fmt.Sprintf("%s<-%s err=%q payload=%d", e.to, e.from, e.resp.ErrMsg, len(e.resp.Payload)))
			c.deliv = append(c.deliv, [2]string{e.to, e.from})
			if b == nil {
				c.dropped = append(c.dropped, e.to+"<-"+e.from+": no such node")
				continue
			}
			if err := b.taskMgr.Receive(e.resp, e.from); err != nil {
				c.dropped = append(c.dropped, e.to+"<-"+e.from+": "+err.Error())
			}
		}
	}
}

// expected answers for the receiver of an envelope: from storage nodes, one per storage node with shards; from a
// broker, just that one.
func (c *cluster) expected(e envelope) int {
	for _, s := range c.storage {
		if s.name == e.from {
			n := 0
			for _, s2 := range c.storage {
				if len(s2.shards) > 0 {
					n++
				}
			}
			return n
		}
	}
	return 1
}
