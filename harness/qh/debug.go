package qh

import (
	"context"
	"encoding/json"
	"fmt"
	"os"
	"time"

	commonmodels "github.com/lindb/common/models"

	"github.com/lindb/lindb/models"
	"github.com/lindb/lindb/query"
	"github.com/lindb/lindb/sql"
	stmtpkg "github.com/lindb/lindb/sql/stmt"
)

// Debug writes the directed world's points into a one-node cluster and prints the raw result set of every statement
// (tool for looking at one statement by hand; not used by a check).
func Debug(statements []string) {
	baseTime = time.Date(2023, 6, 15, 10, 0, 0, 0, time.Now().Location()).UnixMilli()
	dir, _ := os.MkdirTemp("", "verif-qdbg-")
	defer os.RemoveAll(dir)
	c, err := newCluster(dir, refLayout, intervals, 10*time.Second)
	if err != nil {
		panic(err)
	}
	defer c.close()
	for _, p := range directed()[0].Points {
		if _, err := c.write(p.proto()); err != nil {
			panic(err)
		}
	}
	c.order = func(n int) []int {
		o := make([]int, n)
		for i := range o {
			o[i] = i
		}
		return o
	}
	for _, text := range statements {
		st, err := sql.Parse(text)
		if err != nil {
			fmt.Println("PARSE", err)
			continue
		}
		c.held = map[string]*pending{}
		stop, done := make(chan struct{}), make(chan struct{})
		go func() { c.pump(stop); close(done) }()
		root := c.brokers[0]
		sctx, cancel := context.WithTimeout(context.Background(), c.timeout)
		rs, err := query.MetricDataSearch(sctx, &models.ExecuteParam{Database: logicalDB, SQL: text}, st.(*stmtpkg.Query),
			&query.SearchMgr{CurNode: *root.node, Choose: &stateMgr{c: c}, TaskMgr: root.taskMgr, TransportMgr: &transport{c: c, self: root.name}, Timeout: c.timeout})
		cancel()
		close(stop)
		<-done
		if err != nil {
			fmt.Println("RESULT", text, "ERROR", err)
			continue
		}
		b, _ := json.Marshal(rs.(*commonmodels.ResultSet))
		fmt.Println("RESULT", text, string(b))
	}
}
