// Package vh holds helpers shared by the per-property harness drivers:
// one PRNG stream, Coq term printers, case/summary output.
package vh

import (
	"crypto/sha256"
	"encoding/hex"
	"encoding/json"
	"flag"
	"fmt"
	"os"
	"path/filepath"
	"sort"
	"strings"
)

// ---------- PRNG (splitmix64): every random choice of a run derives from one state ----------

type Rand struct{ s uint64 }

func NewRand(seed uint64) *Rand { return &Rand{s: seed*0x9E3779B97F4A7C15 + 0x1234567} }
func (r *Rand) U64() uint64 {
	r.s += 0x9E3779B97F4A7C15
	z := r.s
	z = (z ^ (z >> 30)) * 0xBF58476D1CE4E5B9
	z = (z ^ (z >> 27)) * 0x94D049BB133111EB
	return z ^ (z >> 31)
}
func (r *Rand) Intn(n int) int {
	if n <= 0 {
		return 0
	}
	return int(r.U64() % uint64(n))
}
func (r *Rand) Range(lo, hi int) int { return lo + r.Intn(hi-lo+1) } // inclusive
func (r *Rand) Bool() bool           { return r.U64()&1 == 1 }
func (r *Rand) Chance(pct int) bool  { return r.Intn(100) < pct }
func (r *Rand) Pick(xs []int) int    { return xs[r.Intn(len(xs))] }
func (r *Rand) Perm(n int) []int {
	p := make([]int, n)
	for i := range p {
		p[i] = i
	}
	for i := n - 1; i > 0; i-- {
		j := r.Intn(i + 1)
		p[i], p[j] = p[j], p[i]
	}
	return p
}

// ---------- Coq term printers ----------

func Nat(n int) string { return fmt.Sprintf("%d", n) }
func Z(n int64) string {
	if n < 0 {
		return fmt.Sprintf("(%d)%%Z", n)
	}
	return fmt.Sprintf("%d%%Z", n)
}
func ZU(n uint64) string { return fmt.Sprintf("%d%%Z", n) }
func NU(n uint64) string { return fmt.Sprintf("%d%%N", n) }
func Bool(b bool) string {
	if b {
		return "true"
	}
	return "false"
}
func List(xs []string) string { return "[" + strings.Join(xs, "; ") + "]" }
func NatList(xs []int) string {
	s := make([]string, len(xs))
	for i, x := range xs {
		s[i] = Nat(x)
	}
	return List(s)
}
func ZList(xs []int64) string {
	s := make([]string, len(xs))
	for i, x := range xs {
		s[i] = Z(x)
	}
	return List(s)
}
func Pair(a, b string) string { return "(" + a + ", " + b + ")" }
func Tuple(xs ...string) string { return "(" + strings.Join(xs, ", ") + ")" }
func OptNat(ok bool, n int) string {
	if ok {
		return fmt.Sprintf("(Some %d)", n)
	}
	return "None"
}

// Bytes as a Coq list of N-free small nats is too slow for long strings; bytes are lists of Z-less [nat] < 256.
func Bytes(b []byte) string {
	s := make([]string, len(b))
	for i, x := range b {
		s[i] = fmt.Sprintf("%d", x)
	}
	return List(s)
}

// ---------- run configuration ----------

type Config struct {
	Seed   uint64
	N      int
	Out    string
	Tier   string
	Replay string
}

func ParseFlags() Config {
	var c Config
	flag.Uint64Var(&c.Seed, "seed", 1, "PRNG seed")
	flag.IntVar(&c.N, "n", 100, "number of generated cases")
	flag.StringVar(&c.Out, "out", "", "output directory")
	flag.StringVar(&c.Tier, "tier", "quick", "quick|thorough")
	flag.StringVar(&c.Replay, "replay", "", "replay file (JSON case) instead of generating")
	flag.Parse()
	if c.Out == "" {
		fmt.Fprintln(os.Stderr, "-out required")
		os.Exit(2)
	}
	if err := os.MkdirAll(c.Out, 0o755); err != nil {
		panic(err)
	}
	return c
}

// ---------- output: cases.v + cases.jsonl + summary.json ----------

// Out collects what one harness run produces.
type Out struct {
	dir      string
	coq      strings.Builder // body of cases.v (after the header)
	header   string
	cases    []json.RawMessage
	hashes   map[string]bool
	nontriv  map[string]bool
	Dist     map[string]int // input distribution histogram
	Samples  []interface{}
	Direct   []DirectViolation // violations found by the harness itself (panics, crashes of the real code)
	Notes    []string
	nEval    int
	checks   []string // "Definition c<idx> := <term>."
	checkIdx []int
	ShardSize int
}

type DirectViolation struct {
	Case int         `json:"case"`
	Kind string      `json:"kind"`
	Msg  string      `json:"msg"`
	Data interface{} `json:"data,omitempty"`
}

func NewOut(dir string, header string) *Out {
	return &Out{dir: dir, header: header, hashes: map[string]bool{}, nontriv: map[string]bool{}, Dist: map[string]int{}}
}

// Case registers one executed case: its JSON description (for replay/evidence),
// whether it is non-trivial by the property's rule, and returns its index.
func (o *Out) Case(desc interface{}, nontrivial bool) int {
	b, err := json.Marshal(desc)
	if err != nil {
		panic(err)
	}
	h := sha256.Sum256(b)
	hs := hex.EncodeToString(h[:8])
	o.hashes[hs] = true
	if nontrivial {
		o.nontriv[hs] = true
	}
	o.cases = append(o.cases, b)
	o.nEval++
	if len(o.Samples) < 3 {
		o.Samples = append(o.Samples, json.RawMessage(b))
	}
	return len(o.cases) - 1
}

// Check registers the Coq term (of type nat * nat: correspondence code, oracle code) that decides case idx.
func (o *Out) Check(idx int, term string) {
	o.checks = append(o.checks, fmt.Sprintf("Definition c%d := %s.\n", idx, term))
	o.checkIdx = append(o.checkIdx, idx)
}

const footer = "Definition bad := Eval vm_compute in filter (fun '(_, (c, o)) => negb ((c =? 0)%nat && (o =? 0)%nat)) results.\nPrint bad.\n"

func (o *Out) Count(key string)          { o.Dist[key]++ }
func (o *Out) CountN(key string, n int)  { o.Dist[key] += n }
func (o *Out) Coqf(f string, a ...interface{}) { fmt.Fprintf(&o.coq, f, a...) }
func (o *Out) Violation(c int, kind, msg string, data interface{}) {
	o.Direct = append(o.Direct, DirectViolation{c, kind, msg, data})
}

type Summary struct {
	Evaluations        int                `json:"evaluations"`
	Distinct           int                `json:"distinct"`
	DistinctNontrivial int                `json:"distinct_nontrivial"`
	Distribution       map[string]int     `json:"distribution"`
	Samples            []interface{}      `json:"samples"`
	Direct             []DirectViolation  `json:"direct_violations"`
	Notes              []string           `json:"notes"`
}

func (o *Out) Finish() {
	if len(o.checks) == 0 {
		if err := os.WriteFile(filepath.Join(o.dir, "cases.v"), []byte(o.header+o.coq.String()), 0o644); err != nil {
			panic(err)
		}
	} else {
		sz := o.ShardSize
		if sz <= 0 {
			sz = 400
		}
		for sh := 0; sh*sz < len(o.checks); sh++ {
			var b strings.Builder
			b.WriteString(o.header)
			b.WriteString(o.coq.String())
			var names []string
			for i := sh * sz; i < len(o.checks) && i < (sh+1)*sz; i++ {
				b.WriteString(o.checks[i])
				names = append(names, fmt.Sprintf("(%d%%nat, c%d)", o.checkIdx[i], o.checkIdx[i]))
			}
			b.WriteString("Definition results : list (nat * (nat * nat)) := " + List(names) + ".\n" + footer)
			if err := os.WriteFile(filepath.Join(o.dir, fmt.Sprintf("cases_%03d.v", sh)), []byte(b.String()), 0o644); err != nil {
				panic(err)
			}
		}
	}
	var sb strings.Builder
	for _, c := range o.cases {
		sb.Write(c)
		sb.WriteByte('\n')
	}
	if err := os.WriteFile(filepath.Join(o.dir, "cases.jsonl"), []byte(sb.String()), 0o644); err != nil {
		panic(err)
	}
	keys := make([]string, 0, len(o.Dist))
	for k := range o.Dist {
		keys = append(keys, k)
	}
	sort.Strings(keys)
	s := Summary{o.nEval, len(o.hashes), len(o.nontriv), o.Dist, o.Samples, o.Direct, o.Notes}
	if s.Direct == nil {
		s.Direct = []DirectViolation{}
	}
	if s.Notes == nil {
		s.Notes = []string{}
	}
	b, _ := json.MarshalIndent(s, "", " ")
	if err := os.WriteFile(filepath.Join(o.dir, "summary.json"), b, 0o644); err != nil {
		panic(err)
	}
}
