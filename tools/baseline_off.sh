#!/bin/sh
# Self-validation helper: the pinned test suite on /repo with the verif guard off; compares the tests that pass with the
# stable_pass list of /root/.vp/BASELINE.json. Output: out/baseline_off.log (summary at the end).
cd /repo || exit 2
export GOFLAGS=-mod=mod GOPROXY=off GOSUMDB=off GOTOOLCHAIN=local
go test -json -vet=off -count=1 -timeout 25m ./... > /verif/out/baseline_off.json 2>/dev/null
git checkout -- config 2>/dev/null
python3 - <<'PY'
import json
base=json.load(open('/root/.vp/BASELINE.json'))
want=set(base['stable_pass'])
passed=set()
for l in open('/verif/out/baseline_off.json'):
    try: e=json.loads(l)
    except Exception: continue
    if e.get('Action')=='pass' and e.get('Test'):
        passed.add(e['Package']+'::'+e['Test'])
missing=sorted(want-passed)
print("baseline tests: %d, passing now: %d, missing: %d" % (len(want), len(want&passed), len(missing)))
for m in missing[:40]: print("  MISSING", m)
PY
