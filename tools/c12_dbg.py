#!/usr/bin/env python3
"""Debug aid for C12: print the difference between the model's answer (asis) and the observation of one case.
usage: c12_dbg.py <out-dir> <case index> [ref|lay]"""
import re, sys, json, subprocess, glob, os
d = sys.argv[1]; idx = int(sys.argv[2]); which = sys.argv[3] if len(sys.argv) > 3 else 'ref'
os.chdir(d)
m = None
for f in sorted(glob.glob('cases_*.v')):
    s = open(f).read()
    m = re.search(r'Definition c%d := check_pair (w\d+_pts) (\(mkQuery.*?\))\n (\(mkDesc.*?\))\n (\(mkDesc.*?\))\n (\(ORes.*?\)|\(OErr \d+\))\n (\(ORes.*?\)|\(OErr \d+\))\.\n' % idx, s, re.S)
    if m:
        break
hdr = s[:s.index('Definition c')]
pts, q, dref, dl, oref, o = m.groups()
dd, oo = (dref, oref) if which == 'ref' else (dl, o)
open('dbg.v', 'w').write(hdr + f'''
Definition q := {q}.
Definition dd := {dd}.
Definition oo := {oo}.
Definition model := Eval vm_compute in asis dd {pts} q.
Definition diff := Eval vm_compute in match model, oo with ORes a, ORes b => (0%nat, filter (fun e => negb (existsb (entry_eqb e) b)) a, filter (fun e => negb (existsb (entry_eqb e) a)) b) | OErr a, OErr b => (a, [], []) | OErr a, _ => ((100+a)%nat,[],[]) | _, OErr b => ((200+b)%nat, [], []) end.
Print diff.
''')
print(subprocess.run(['coqc', '-Q', '/verif/coq', 'LinDBV', 'dbg.v'], capture_output=True, text=True).stdout)
c = [json.loads(l) for l in open('cases.jsonl')][idx]
print(c['world'], '|', c['query']['sql']); print(c['plan'], c['layout'], 'flush', c['flush_after'], 'rewrites', c.get('rewrites'))
print('routes', c['routes'], 'order', c['observed']['order'], 'dropped', c['observed'].get('dropped'))
