#!/usr/bin/env python3
"""Orchestrator of one property check.

  python3 tools/check.py <ID> [--tier quick|thorough] [--replay FILE]

What a run does (see DESIGN.md sections 2-3):
 1. builds the Coq development (full .vo, coq_makefile) and re-checks the property's
    Props.v, collecting the `Print Assumptions` transcript of every property theorem;
 2. greps the development for forbidden constructs;
 3. builds the Go harness of the property against /repo's current working tree (-tags verif);
 4. runs it: the harness drives the real code on generated inputs / histories and writes the
    observations as Coq terms (cases*.v) plus a JSON description of every case;
 5. evaluates cases*.v with coqc: the model's executable definitions are run on the same inputs
    (correspondence) and the boolean form of the property is evaluated on the implementation's
    observations (oracle);
 6. reports: exit 0, or `VIOLATION property=<id> replay=<path>[ no-failing-input-found]` + exit 1;
    `KNOWN-FINDING:` lines for listed findings; writes evidence/<id>.json.
"""
import json, os, re, subprocess, sys, time, glob, hashlib, shutil, fcntl
from concurrent.futures import ThreadPoolExecutor

ROOT = os.path.dirname(os.path.dirname(os.path.abspath(__file__)))
COQ = os.path.join(ROOT, "coq")
HARNESS = os.path.join(ROOT, "harness")
REPO = os.environ.get("VERIF_REPO", "/repo")
# evidence/ and replays/ describe runs on /repo only; a run on a scratch copy (self-validation) writes under out/alt
RESULTS = ROOT if REPO == "/repo" else os.path.join(ROOT, "out", "alt")
sys.path.insert(0, os.path.join(ROOT, "tools"))
from props import PROPS, TRUSTED_GLOBAL, ALLOWED_AXIOMS  # noqa: E402

GOENV = dict(os.environ, GOFLAGS="-mod=mod", GOPROXY="off", GOSUMDB="off", GOTOOLCHAIN="local",
             CGO_ENABLED=os.environ.get("CGO_ENABLED", "0"))


def sh(cmd, cwd=None, timeout=None, env=None):
    t0 = time.time()
    try:
        p = subprocess.run(cmd, cwd=cwd, timeout=timeout, env=env, stdout=subprocess.PIPE,
                           stderr=subprocess.STDOUT, text=True, errors="replace")
        return p.returncode, p.stdout, time.time() - t0
    except subprocess.TimeoutExpired as e:
        out = e.stdout if isinstance(e.stdout, str) else (e.stdout or b"").decode(errors="replace")
        return 124, out + "\n[timeout]", time.time() - t0


FORBIDDEN = re.compile(r"\b(Admitted|admit|Axiom|Axioms|Parameter|Parameters|Conjecture|Abort All|"
                       r"Unset\s+Guard\s+Checking|Unset\s+Positivity\s+Checking|Unset\s+Universe\s+Checking|"
                       r"bypass_check|Admit\s+Obligations|native_compute)\b")


def strip_comments(src):
    out, depth, i = [], 0, 0
    while i < len(src):
        if src.startswith("(*", i):
            depth += 1; i += 2
        elif src.startswith("*)", i) and depth > 0:
            depth -= 1; i += 2
        else:
            if depth == 0:
                out.append(src[i])
            elif src[i] == "\n":
                out.append("\n")
            i += 1
    return "".join(out)


def grep_forbidden():
    """Forbidden constructs anywhere in the development (comments stripped)."""
    hits = []
    for path in sorted(glob.glob(os.path.join(COQ, "**", "*.v"), recursive=True)):
        src = strip_comments(open(path).read())
        depth = 0
        for ln, line in enumerate(src.split("\n"), 1):
            if re.match(r"\s*Section\b", line):
                depth += 1
            if re.match(r"\s*End\b", line) and depth > 0:
                depth -= 1
            m = FORBIDDEN.search(line)
            if m:
                hits.append("%s:%d: %s" % (os.path.relpath(path, ROOT), ln, m.group(0)))
            if depth == 0 and re.match(r"\s*(Variable|Variables|Hypothesis|Hypotheses|Context)\b", line):
                hits.append("%s:%d: %s outside a section" % (os.path.relpath(path, ROOT), ln, line.strip()[:40]))
    return hits


class Lock:
    def __init__(self, name):
        self.path = os.path.join(ROOT, "out", name + ".lock")
    def __enter__(self):
        os.makedirs(os.path.dirname(self.path), exist_ok=True)
        self.f = open(self.path, "w"); fcntl.flock(self.f, fcntl.LOCK_EX); return self
    def __exit__(self, *a):
        fcntl.flock(self.f, fcntl.LOCK_UN); self.f.close()


def coq_build():
    with Lock("coq"):
        return coq_build_()


def coq_build_():
    if not os.path.exists(os.path.join(COQ, "Makefile")):
        rc, out, _ = sh(["coq_makefile", "-f", "_CoqProject", "-o", "Makefile"], cwd=COQ, timeout=60)
        if rc != 0:
            return rc, out
    rc, out, dt = sh(["make", "-j16"], cwd=COQ, timeout=3000)
    return rc, out


def props_transcript(pid, files):
    """Re-check the property's theorem files; returns [(theorem, status, axioms)]."""
    res = []
    for f in files:
        path = os.path.join(COQ, f)
        src = strip_comments(open(path).read())
        names = re.findall(r"Print\s+Assumptions\s+([A-Za-z0-9_']+)\s*\.", src)
        os.makedirs(os.path.join(ROOT, "out", pid, "props"), exist_ok=True)
        tmpvo = os.path.join(ROOT, "out", pid, "props", os.path.basename(f)[:-2] + ".vo")
        rc, out, _ = sh(["coqc", "-Q", COQ, "LinDBV", "-o", tmpvo, path], cwd=COQ, timeout=900)
        if rc != 0:
            for n in names:
                res.append((n, "does-not-check", [out[-2000:]]))
            if not names:
                res.append((f, "does-not-check", [out[-2000:]]))
            continue
        # split transcript into blocks, one per Print Assumptions
        blocks = re.split(r"(?m)^(?=Closed under the global context|Axioms:)", out)
        blocks = [b for b in blocks if b.startswith("Closed under") or b.startswith("Axioms:")]
        for i, n in enumerate(names):
            if i >= len(blocks):
                res.append((n, "no-transcript", []))
            elif blocks[i].startswith("Closed under"):
                res.append((n, "closed", []))
            else:
                ax = re.findall(r"(?m)^([A-Za-z0-9_.']+)\s*:", blocks[i])
                bad = [a for a in ax if a not in ALLOWED_AXIOMS]
                res.append((n, "axioms-allowed" if not bad else "axioms-forbidden", ax))
    return res


def harness_build(name):
    with Lock("go"):
        return harness_build_(name)


def harness_build_(name):
    """Builds the driver against REPO's working tree.  For the registered checks REPO is /repo (go.mod's replace line).
    The self-validation tools (tools/seedrun.py) point VERIF_REPO at a scratch copy: the build then uses a module file
    of its own under out/altmod (go build -modfile), so neither /repo nor harness/go.mod is ever rewritten."""
    os.makedirs(os.path.join(HARNESS, "bin"), exist_ok=True)
    cmd = ["go", "build", "-tags", "verif"]
    if REPO == "/repo":
        shutil.copyfile(os.path.join(REPO, "go.sum"), os.path.join(HARNESS, "go.sum"))
    else:
        alt = os.path.join(ROOT, "out", "altmod")
        os.makedirs(alt, exist_ok=True)
        src = open(os.path.join(HARNESS, "go.mod")).read()
        open(os.path.join(alt, "go.mod"), "w").write(re.sub(r"=> \S+", "=> " + REPO, src))
        shutil.copyfile(os.path.join(REPO, "go.sum"), os.path.join(alt, "go.sum"))
        cmd.append("-modfile=" + os.path.join(alt, "go.mod"))
    rc, out, dt = sh(cmd + ["-o", "bin/" + name, "./" + name], cwd=HARNESS, timeout=1500, env=GOENV)
    return rc, out, dt


BAD_RE = re.compile(r"\(\s*(\d+)(?:%nat)?\s*,\s*\(\s*(\d+)(?:%nat)?\s*,\s*(\d+)(?:%nat)?\s*\)\s*\)")


def eval_cases(outdir):
    """coqc every cases*.v; returns (failing [(idx, corr, oracle)], errors)."""
    files = sorted(glob.glob(os.path.join(outdir, "cases*.v")))
    failing, errors = [], []

    def one(f):
        return f, sh(["coqc", "-Q", COQ, "LinDBV", f], cwd=outdir, timeout=3000)

    with ThreadPoolExecutor(max_workers=12) as ex:
        for f, (rc, out, dt) in ex.map(one, files):
            if rc != 0:
                errors.append("%s: coqc failed: %s" % (os.path.basename(f), out[-1500:]))
                continue
            m = re.search(r"bad\s*=\s*(.*?)\n\s*:\s*list", out, re.S)
            if not m:
                errors.append("%s: no result in coqc output: %s" % (os.path.basename(f), out[-500:]))
                continue
            body = m.group(1)
            if body.strip() != "[]":
                found = list(BAD_RE.finditer(body))
                if not found:
                    errors.append("%s: unparsable non-empty result: %s" % (os.path.basename(f), body[:300]))
                for g in found:
                    failing.append((int(g.group(1)), int(g.group(2)), int(g.group(3))))
    return failing, errors


def load_known():
    path = os.path.join(ROOT, "known_findings.json")
    if not os.path.exists(path):
        return []
    return json.load(open(path)).get("findings", [])


def main():
    args = sys.argv[1:]
    if not args:
        print(__doc__); sys.exit(2)
    pid = args[0]
    tier = os.environ.get("VERIF_TIER", "quick")
    replay = None
    i = 1
    while i < len(args):
        if args[i] == "--tier":
            tier = args[i + 1]; i += 2
        elif args[i] == "--replay":
            replay = args[i + 1]; i += 2
        else:
            i += 1
    seed = int(os.environ.get("VERIF_SEED", "1"))
    P = PROPS[pid]
    t0 = time.time()
    outdir = os.path.join(ROOT, "out", pid)
    shutil.rmtree(outdir, ignore_errors=True)
    os.makedirs(outdir, exist_ok=True)
    os.makedirs(os.path.join(RESULTS, "evidence"), exist_ok=True)
    os.makedirs(os.path.join(RESULTS, "replays"), exist_ok=True)
    n = P["n"][tier]
    only_idx = None
    if replay:
        R = json.load(open(replay))
        seed, tier, n = R.get("seed", seed), R.get("tier", tier), R.get("n", n)
        only_idx = R.get("case_index")

    obligations = []   # (name, kind, ok, detail)
    violations = []    # dicts
    notes = []

    # ---- 1. Coq build + theorem transcripts
    rc, out = coq_build()
    coq_ok = rc == 0
    if not coq_ok:
        notes.append("coq build failed: " + out[-1500:])
    thms = props_transcript(pid, P["props_files"]) if coq_ok else []
    for (name, status, ax) in thms:
        obligations.append((name, "theorem", status in ("closed", "axioms-allowed"), status + (" " + ",".join(ax) if ax and status != "does-not-check" else "")))
    if not coq_ok:
        obligations.append(("coq-build", "theorem", False, out[-800:]))
    hits = grep_forbidden()
    obligations.append(("no-forbidden-constructs", "hygiene", not hits, "; ".join(hits[:10])))

    # ---- 2. harness build + run
    summary, failing, cases = None, [], []
    hrc, hout, hdt = harness_build(P["harness"])
    if hrc != 0:
        obligations.append(("harness-build", "correspondence", False, hout[-3000:]))
    else:
        cmd = [os.path.join(HARNESS, "bin", P["harness"]), "-seed", str(seed), "-n", str(n), "-tier", tier, "-out", outdir]
        rrc, rout, rdt = sh(cmd, cwd=outdir, timeout=P.get("timeout", {}).get(tier, 1500), env=GOENV)
        open(os.path.join(outdir, "harness.log"), "w").write(rout)
        if rrc != 0 or not os.path.exists(os.path.join(outdir, "summary.json")):
            obligations.append(("harness-run", "correspondence", False, "exit %d: %s" % (rrc, rout[-3000:])))
        else:
            summary = json.load(open(os.path.join(outdir, "summary.json")))
            cases = [json.loads(l) for l in open(os.path.join(outdir, "cases.jsonl")) if l.strip()]
            if coq_ok:
                failing, errs = eval_cases(outdir)
                for e in errs:
                    obligations.append(("model-evaluation", "correspondence", False, e))
            else:
                obligations.append(("model-evaluation", "correspondence", False, "coq build failed"))

    # ---- 3. classify
    known = [k for k in load_known() if k.get("property") == pid and k.get("status", "open") == "open"]
    known_hit = {}
    real_fail = []
    direct = summary["direct_violations"] if summary else []
    for d in direct:
        if d.get("kind", "").startswith("model-cannot-follow"):
            # the code took its steps in an order the model has no word for: a broken correspondence, not a failing input
            failing.append((d["case"], 800, 0))
        else:
            failing.append((d["case"], 0, 900))  # a direct violation is an oracle failure observed by the harness
    directmsg = {d["case"]: d for d in direct}
    for (idx, c, o) in sorted(set(failing)):
        if only_idx is not None and idx != only_idx:
            continue
        case = cases[idx] if idx < len(cases) else {}
        sig = case.get("sig") if isinstance(case, dict) else None
        k = next((k for k in known if (sig and sig == k.get("sig")) or
                  (c == 0 and k.get("oracle_code") is not None and o == k.get("oracle_code"))), None)
        if k is not None:
            known_hit.setdefault(k["key"], []).append(idx)
        else:
            real_fail.append((idx, c, o))
    for k in known:
        if k["key"] in known_hit:
            print("KNOWN-FINDING: property=%s %s (%s; reproduced on %d case(s) of this run)" % (pid, k["key"], k["what"], len(known_hit[k["key"]])))
        else:
            print("KNOWN-FINDING: property=%s %s (%s; not exercised or no longer failing in this run)" % (pid, k["key"], k["what"]))

    corr_kinds = P.get("corr_obligations", ["model-agrees-with-implementation", "oracle-holds-on-implementation"])
    corr_fail = [f for f in real_fail if f[1] != 0]
    orac_fail = [f for f in real_fail if f[2] != 0]
    if summary is not None:
        obligations.append((corr_kinds[0], "correspondence", not corr_fail, "%d disagreeing case(s)" % len(corr_fail)))
        obligations.append((corr_kinds[1], "oracle", not orac_fail, "%d case(s) violate the property" % len(orac_fail)))

    broken = [o for o in obligations if not o[2]]
    rcode = 0
    if broken:
        rcode = 1
        # choose the replay: prefer an oracle failure (a concrete failing input), smallest case
        def size(f):
            return len(json.dumps(cases[f[0]])) if f[0] < len(cases) else 0
        pick = None
        if orac_fail:
            pick = min(orac_fail, key=size)
        elif corr_fail:
            pick = min(corr_fail, key=size)
        rp = os.path.join(RESULTS, "replays", "%s-seed%d-%s.json" % (pid, seed, tier))
        R = {"property": pid, "seed": seed, "tier": tier, "n": n,
             "broken_obligations": [{"name": o[0], "kind": o[1], "detail": o[3]} for o in broken],
             "replay_cmd": "python3 tools/check.py %s --replay %s" % (pid, os.path.relpath(rp, ROOT))}
        if pick:
            R["case_index"] = pick[0]
            R["case"] = cases[pick[0]] if pick[0] < len(cases) else None
            R["correspondence_code"] = pick[1]
            R["oracle_code"] = pick[2]
            if pick[0] in directmsg:
                R["observed"] = directmsg[pick[0]]
            R["how_to_read"] = P.get("replay_help", "")
            R["all_failing_cases"] = [list(f) for f in real_fail[:50]]
        json.dump(R, open(rp, "w"), indent=1)
        concrete = bool(orac_fail)
        print("VIOLATION property=%s replay=%s%s" % (pid, rp, "" if concrete else " no-failing-input-found"))
        for o in broken[:6]:
            print("  broken: %s [%s] %s" % (o[0], o[1], (o[3] or "")[:300].replace("\n", " | ")))

    # ---- 4. evidence
    wall = time.time() - t0
    ev = {
        "property_id": pid, "tier": tier, "seed": seed, "level": "proof",
        "coverage": {
            "obligations": len(obligations),
            "discharged": len([o for o in obligations if o[2]]),
            "checker_cmd": "make -C coq (coq_makefile, coqc 8.16.1, full .vo) ; coqc coq/%s ; coqc out/%s/cases*.v" % (" coq/".join(P["props_files"]), pid),
            "trusted_base": TRUSTED_GLOBAL + P.get("trusted", []),
            "obligation_list": [{"name": o[0], "kind": o[1], "discharged": o[2], "detail": (o[3] or "")[:400]} for o in obligations],
            "theorems": [{"name": t[0], "status": t[1], "axioms": t[2] if t[1] != "does-not-check" else []} for t in thms],
            "statement_status": P.get("statement_status", {}),
            "evaluations": summary["evaluations"] if summary else 0,
            "distinct": summary["distinct"] if summary else 0,
            "distinct_nontrivial": summary["distinct_nontrivial"] if summary else 0,
            "rule": P.get("rule", ""),
            "samples": (summary["samples"] if summary and summary["samples"] else ["(harness did not run)"]),
            "distribution": summary["distribution"] if summary else {},
            "harness_notes": summary["notes"] if summary else [],
            "known_findings_reproduced": {k: len(v) for k, v in known_hit.items()},
        },
        "assumptions": P.get("assumptions", []),
        "wall_s": round(wall, 2),
        "violations": len(real_fail) + len([o for o in broken if o[1] in ("theorem", "hygiene")]),
    }
    if notes:
        ev["coverage"]["notes"] = notes
    json.dump(ev, open(os.path.join(RESULTS, "evidence", pid + ".json"), "w"), indent=1)
    print("%s %s: %d/%d obligations discharged, %d cases (%d distinct non-trivial), %.1fs" % (
        pid, tier, ev["coverage"]["discharged"], ev["coverage"]["obligations"],
        ev["coverage"]["evaluations"], ev["coverage"]["distinct_nontrivial"], wall))
    sys.exit(rcode)


if __name__ == "__main__":
    main()
