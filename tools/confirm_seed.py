#!/usr/bin/env python3
"""Self-validation helper (not part of any registered check).
   confirm_seed.py <ID> [worktree]  : confirms a seeded change made by a sub-agent in its scratch worktree
   (demo fails with the change, passes without, tree builds, touched packages' tests pass),
   copies it to /verif/seeded/<ID>[-k]/, then applies it to a scratch copy of /repo (tools/seedrun.py), runs the
   property's quick check on the copy. Prints what the check said."""
import json, os, subprocess, sys, shutil, time
ROOT = os.path.dirname(os.path.dirname(os.path.abspath(__file__)))
pid = sys.argv[1]
wt = sys.argv[2] if len(sys.argv) > 2 else "/tmp/wt/" + pid
name = sys.argv[3] if len(sys.argv) > 3 else pid
env = dict(os.environ, GOFLAGS="-mod=mod", GOPROXY="off", GOSUMDB="off", GOTOOLCHAIN="local")
def sh(cmd, cwd, timeout=1800):
    p = subprocess.run(cmd, cwd=cwd, shell=True, env=env, stdout=subprocess.PIPE, stderr=subprocess.STDOUT, text=True, timeout=timeout)
    return p.returncode, p.stdout
meta = json.load(open(os.path.join(wt, "SEED/meta.json")))
patch = os.path.join(wt, "SEED/patch.diff")
import re
demo = re.split(r"\s{2,}\(", meta["demo_cmd"])[0].strip()
if os.environ.get("DEMO_CMD"): demo = os.environ["DEMO_CMD"]
res = {"property": pid}
PHASE = os.environ.get("PHASE", "all")   # confirm: steps 1-3 only (worktree only); check: reuse a confirm result
cf = os.path.join(wt, "SEED/confirmed.json")
if PHASE == "check" and os.path.exists(cf):
    saved = json.load(open(cf))
    rc1, rc2, rcb, o1, o2, ot = saved["rc1"], saved["rc2"], saved["rcb"], saved["o1"], saved["o2"], saved["ot"]
    res.update(saved["res"])
    print(json.dumps(res, indent=1))
    ok = rc1 != 0 and rc2 == 0 and rcb == 0 and not res["test_non_ok_lines"]
    print("CONFIRMED" if ok else "NOT CONFIRMED")
    if not ok:
        sys.exit(1)
    SKIP = True
else:
    SKIP = False
if not SKIP:
  # state: change applied. 1. demo fails
  rc1, o1 = sh(demo, wt); res["demo_with_change_rc"] = rc1
  # 2. revert, demo passes
  rcr, orr = sh("git apply -R %s" % patch, wt)
  assert rcr == 0, orr
  rc2, o2 = sh(demo, wt); res["demo_without_change_rc"] = rc2
  rca, oa = sh("git apply %s" % patch, wt); assert rca == 0, oa
  # 3. build + tests of the touched packages and the baseline packages depending on them
  rcb, ob = sh("go build ./...", wt); res["build_rc"] = rcb
  files = [l[6:] for l in open(patch).read().split("\n") if l.startswith("+++ b/")]
  pkgs = sorted({"./" + os.path.dirname(f) for f in files})
  rct, ot = sh("go test -vet=off -count=1 ./... 2>&1 | grep -v 'no test files' | grep -v '^ok' | grep -v 'build failed' | grep -v '^#' | head -40", wt, 2400)
  res["test_non_ok_lines"] = [l for l in ot.split("\n") if l.startswith("FAIL") or l.startswith("--- FAIL")]
  # ports of embedded etcd / http test servers clash when several suites run at once: re-run those packages alone
  flaky = [l for l in res["test_non_ok_lines"] if "pkg/state" in l or "pkg/http" in l]
  if flaky:
      rcf, of = sh("go test -vet=off -count=1 ./pkg/state/ ./pkg/http/ 2>&1 | grep -v '^ok' | head", wt, 900)
      if not [l for l in of.split("\n") if l.startswith("FAIL")]:
          res["test_non_ok_lines"] = [l for l in res["test_non_ok_lines"] if l not in flaky]
      sh("git checkout -- config", wt)
  sh("git checkout -- config", wt)
  print(json.dumps(res, indent=1))
  ok = rc1 != 0 and rc2 == 0 and rcb == 0 and not res["test_non_ok_lines"]
  print("CONFIRMED" if ok else "NOT CONFIRMED")
  print("--- demo with change (tail):\n" + o1[-600:])
  if not ok:
      print("--- demo without change (tail):\n" + o2[-600:]); print(ot[-1500:])
      sys.exit(1)
  json.dump({"rc1": rc1, "rc2": rc2, "rcb": rcb, "o1": o1[-600:], "o2": o2[-600:], "ot": ot[-1500:], "res": res}, open(cf, "w"))
  if PHASE == "confirm":
      sys.exit(0)
dst = os.path.join(ROOT, "seeded", name)
shutil.rmtree(dst, ignore_errors=True)
shutil.copytree(os.path.join(wt, "SEED"), dst)
# run my check against it
sys.path.insert(0, os.path.join(ROOT, "tools"))
from seedrun import check_with_patch  # noqa: E402   (scratch copy of /repo; /repo itself is never touched)
t0 = time.time()
st, rcc, oc = check_with_patch(pid, patch, "quick", 3000)
assert st == "ran", oc
print("--- check exit %d in %.0fs:\n%s" % (rcc, time.time() - t0, oc[-1500:]))
meta["confirmed"] = {"demo_with_change_rc": rc1, "demo_without_change_rc": rc2, "go_build": "ok", "suite": "go test -vet=off -count=1 ./... : no FAIL lines other than pre-existing build failures",
                     "ran": [demo, "git apply -R patch.diff; " + demo, "go build ./...", "go test -vet=off -count=1 ./..."]}
meta["check_result"] = {"cmd": "python3 tools/check.py %s --tier quick" % pid, "exit": rcc, "lines": [l for l in oc.split("\n") if "VIOLATION" in l or "broken:" in l][:8]}
json.dump(meta, open(os.path.join(dst, "meta.json"), "w"), indent=1)
