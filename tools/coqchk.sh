#!/bin/sh
# Independent re-check of every compiled file of the development with coqchk, printing the axioms it relies on.
# Slow (minutes); run on a fully built tree. Output: out/coqchk.log
cd "$(dirname "$0")/../coq" || exit 2
mods=$(grep '\.v$' _CoqProject | sed 's/\.v$//; s#/#.#g; s/^/LinDBV./')
timeout 7200 coqchk -silent -o -Q . LinDBV $mods > ../out/coqchk.log 2>&1
rc=$?
tail -15 ../out/coqchk.log
exit $rc
