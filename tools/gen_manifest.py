#!/usr/bin/env python3
"""Regenerates MANIFEST.json from tools/props.py (keeps it schema-valid)."""
import json, os, sys
ROOT = os.path.dirname(os.path.dirname(os.path.abspath(__file__)))
sys.path.insert(0, os.path.join(ROOT, "tools"))
import subprocess
from props import PROPS, NOT_APPLICABLE
HOOK_COMMITS = subprocess.run(['git','-C','/repo','log','--format=%h %s','--grep=^verif hook'],stdout=subprocess.PIPE,text=True).stdout.strip().split('\n')
checks = []
for pid in sorted(PROPS):
    P = PROPS[pid]
    checks.append({
        "property_id": pid,
        "quick_cmd": "python3 tools/check.py %s --tier quick" % pid,
        "thorough_cmd": "python3 tools/check.py %s --tier thorough" % pid,
        "evidence_file": "/verif/evidence/%s.json" % pid,
        "replay_cmd_template": "python3 tools/check.py %s --replay {path}" % pid,
        "engine": "coq-proof+correspondence",
        "level_claimed": {"category": "proof", "text": P["level_text"], "design_ref": "DESIGN.md section 6, " + pid},
        "level_note": P["level_note"],
        "technique": P.get("technique", "machine-checked proof in Coq 8.16.1 of a hand-written Gallina model + differential correspondence check (model evaluated by vm_compute on the implementation's inputs and observations)"),
    })
M = {
    "version": 1,
    "setup_cmd": "sh tools/setup.sh",
    "hooks": {
        "guard": "verif",
        "enable": "go build -tags verif (harness module /verif/harness with replace github.com/lindb/lindb => /repo)",
        "baseline_off_cmd": "cd /repo && go test -mod=mod -json -vet=off -count=1 -timeout 25m ./...",
        "source_commits": HOOK_COMMITS,
        "add_only": True,
    },
    "engines": [{"name": "coq-proof+correspondence", "path": "/verif/tools/check.py",
                 "serves_properties": sorted(PROPS),
                 "kind_free_text": "Coq 8.16.1 development under /verif/coq (theorems about hand-written executable models), Go harness under /verif/harness driving the real packages, tools/check.py compares model and implementation and evaluates the property's boolean oracle on implementation observations"}],
    "checks": checks,
    "notes": "See DESIGN.md. known_findings.json lists genuine defects recorded rather than repaired and the fix: commits.",
    "not_applicable": [{"property_id": k, "reason": v} for k, v in sorted(NOT_APPLICABLE.items())],
}
json.dump(M, open(os.path.join(ROOT, "MANIFEST.json"), "w"), indent=1)
print("MANIFEST.json: %d checks, %d not applicable" % (len(checks), len(NOT_APPLICABLE)))
