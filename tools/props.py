"""Per-property configuration of tools/check.py."""

ALLOWED_AXIOMS = {
    # standard-library axioms that may appear (none is expected; each is named in DESIGN.md section 5)
    "FunctionalExtensionality.functional_extensionality_dep",
    "functional_extensionality_dep",
    "Eqdep.Eq_rect_eq.eq_rect_eq", "eq_rect_eq",
    "JMeq.JMeq_eq", "JMeq_eq",
    "ProofIrrelevance.proof_irrelevance", "proof_irrelevance",
    "Classical_Prop.classic", "classic",
}

TRUSTED_GLOBAL = [
    "Coq 8.16.1 kernel (coqc; coqchk re-check in the thorough tier of the shared 'coqchk' target); vm_compute used inside proofs and for evaluating cases.v; native_compute not used",
    "hand-written Gallina model tied to the code by differential execution (cases.v evaluated by coqc with vm_compute): its strength is bounded by the generators, whose distribution is reported under coverage.distribution",
    "Go harness (harness/<id>), tools/check.py, canonicalisation of observations",
    "Go runtime, sync/atomic semantics, OS file system (rename atomic, written bytes survive process death), mmap shared mappings",
]

HOOK_COMMITS = []

# properties not (yet) claimed: kept current while the framework is being built
NOT_APPLICABLE = {pid: "check not built yet in this session (work in progress; the design in DESIGN.md claims it)" for pid in
                  ["C%02d" % i for i in range(1, 21)]}

PROPS = {
    "C18": {
        "harness": "c18",
        "level_text": "Theorems (Coq, no axioms) over the model of shard_assign.go and the master event handlers: every assignment gives each shard exactly rf distinct live nodes, first replicas round-robin, growth keeps existing shards, and after ANY event sequence online <-> some replica alive and the leader is an alive replica. The model is tied to the code on every run by executing both on generated event histories and assignment calls and comparing GetStorageState() after every event.",
        "level_note": "Trusted: Coq kernel, the hand-written model (validated by differential runs, not proved equal to the Go code), the harness's in-memory repository and its role as etcd watch, JSON codecs, math/rand re-seeding to learn the random start index/shift.",
        "props_files": ["C18/Props.v"],
        "n": {"quick": 150, "thorough": 3000},
        "rule": "histories of node-up/node-down/create-or-grow/drop events on the real master StateManager (1-7 nodes, up to 12 shards, rf 0-8) plus direct ShardAssignment/ModifyShardAssignment calls with fixed start index; a history is non-trivial when it has >= 2 nodes, some replica factor >= 2 and a node-down event hitting a current leader; an assignment call when nodes >= 3, rf >= 2 and more shards than nodes; distinct = different JSON of the case",
        "trusted": [
            "modelled, not verified: JSON (un)marshalling of assignments and node records, the etcd watch (the harness delivers a ShardAssignmentChanged event after every Put on an assignment path), math/rand (start index and shift are read back by re-seeding)",
        ],
        "assumptions": ["node ids 1..9 so that the repository's key order equals numeric order", "events are processed one at a time (processEvent holds the manager's mutex)"],
        "replay_help": "case.events is the event list fed to the real StateManager; correspondence_code k = first event (1-based) after which GetStorageState() differs from the model; oracle_code k = first event after which the online/leader invariant is false on the implementation's state",
    },
}

PROPS["C19"] = {
    "harness": "c19",
    "props_files": ["C19/Props.v"],
    "n": {"quick": 120, "thorough": 1500},
    "level_text": "Theorem (Coq, no axioms): for every stage tree, every ok/error/panic assignment, every sync/async mix and every schedule of the interleaving semantics, the completion callback fires at most once, only after every started stage finished, and exactly once with an error iff some executed stage failed, when all work is done. Tied to the code by running all trees with <= 3 stages plus random larger trees on the real pipeline/worker pool with gate-controlled completion orders and comparing callbacks/completed stages with the model.",
    "level_note": "Trusted: the action-list model of executeStage/completeStage/complete (validated differentially; lock regions assumed atomic), the fake plan nodes and gates of the harness; real goroutine schedules are sampled, the all-schedules claim is the theorem's.",
    "rule": "all stage trees with <= 3 stages over {ok,err,panic} x {sync,async} (exhaustive, 474 trees) plus random trees up to depth 3; completion order chosen by the PRNG through gates; non-trivial = >= 3 executed stages, >= 1 async and >= 1 failing or panicking executed stage; distinct = different JSON of (tree, observation)",
    "trusted": ["partial: free-running goroutine interleavings of the real code are sampled; the schedule quantifier is carried by the theorem over the model whose atomic steps are executeStage (pending++), completeStage (record error, pending--, maybe callback) and pool submission"],
    "assumptions": ["sync.Mutex regions and atomic counters are atomic steps", "a stage's plan either returns nil, returns an error, or panics (three outcomes)"],
    "replay_help": "case.tree is the stage tree (o: 0 ok, 1 error, 2 panic; a: async); observed is what the real pipeline did; correspondence_code 1 = callbacks/completed-stage count differ from the model; oracle_code 1 = not exactly one callback, or its error flag differs from 'some executed stage failed', or (without panic) stages were unfinished at the callback, or no callback (hang)",
}

PROPS["C13"] = {
    "harness": "c13",
    "props_files": ["C13/Props.v"],
    "n": {"quick": 400, "thorough": 10000},
    "level_text": "Theorems (Coq, no axioms, unbounded): over a proleptic Gregorian calendar model (civil_from_days/days_from_civil proved mutually consistent for every day number) each of the day/month/year calculators satisfies, for EVERY millisecond timestamp >= 0, every fixed zone offset and every positive interval: the family range contains the timestamp, the millisecond after a family's end starts the next family (tiling), any timestamp inside a family maps to that family, and start + slot*interval is within one interval below the timestamp; the planner picks a stored interval, a positive whole multiple and an aligned covering range. Tied to the code by evaluating all calculator methods and the planner on month/leap/year boundary timestamps and random ones and comparing every number.",
    "level_note": "Trusted: the calendar model's agreement with Go's time package (validated on boundary tables, not proved), fixed-offset zones only (DST zones are outside the model), segment-name formatting is checked by the harness directly.",
    "rule": "calculator cases: timestamps within 1 ms / 1 h / 1 day of first, last, 30th, 31st days of months (leap years included) and random ms timestamps 1970-2200, interval type and value drawn from the allowed values of that type; planner cases: random option interval sets, ranges from 0 ms to 400 days and query intervals; non-trivial = boundary timestamp, resp. planner case that changes the requested interval or range with >= 2 stored intervals; distinct = different JSON",
    "trusted": ["modelled, not verified: Go's time.Date/Unix (the model is Hinnant's algorithm with a fixed offset), FormatTimestamp/ParseTimestamp (round trip checked directly by the harness)", "DST time zones are outside the model"],
    "assumptions": ["timestamps are >= 0 ms (Go's / and % truncate toward zero; LinDB's slot arithmetic is for non-negative offsets)", "the process time zone is a fixed offset (the harness sets time.Local to UTC and, by seed/tier, to +08:00, -05:00, +05:30)"],
    "statement_status": {"get_families_cross_segment": "see known_findings.json / DESIGN.md section 7 (month/year CalcFamily ignores the segment): observed through C11's data-family lookup"},
    "replay_help": "case.kind=calc: (off seconds, type 0 day/1 month/2 year, ts ms, interval ms): correspondence_code 1 = some calculator output differs from the model, oracle_code 1 = the implementation's own numbers violate containment/tiling/idempotence/slot bound; case.kind=plan: planner inputs",
}

PROPS["C17"] = {
    "harness": "c17",
    "props_files": ["C17/Props.v"],
    "n": {"quick": 400, "thorough": 6000},
    "level_text": "Theorems (Coq, no axioms): structural induction on the 12-constructor expression AST shows unmarshal (marshal e) = e for every expression tree, and query_roundtrip shows the same for every statement record with every combination of absent (omitempty) clauses, over an abstract JSON tree. Tied to the code by generating SQL text (parsed by the real ANTLR parser) and raw AST trees, and checking that the model's marshal produces exactly the JSON tree the Go code put on the wire (key order included) and that the model's decoder accepts it.",
    "level_note": "Trusted: the JSON library (tree <-> bytes), float and interval text forms (carried opaquely in the model; their Go round trip is checked directly by the harness), the ANTLR parser (statement model starts at the AST; parse determinism is tested).",
    "rule": "SQL statements from a grammar-directed generator (select items with nested calls/arithmetic/aliases, namespace, tag conditions with and/or/not/in/like/regex, time range, group by with time(), having, order by, limit), planner-filled statements, and raw expression trees up to depth 4 (6 in thorough) including shapes the parser never builds; non-trivial = nesting depth >= 3 and >= 4 optional clauses (SQL) resp. depth >= 4 (raw trees); distinct = different JSON",
    "trusted": ["modelled, not verified: jsoniter (bytes <-> tree), float64 text, Interval.String/ValueOf (round trip on whole-second values checked directly by the harness)", "the SQL parser is exercised, not modelled"],
    "assumptions": ["intervals on the wire are whole seconds (what the parser and the planner produce); sub-second remainders are lost by Interval.String (outside the property's inputs)"],
    "replay_help": "case.sql / case.expr is the statement, case.wire the JSON the implementation produced; correspondence_code 1 = the model's marshal differs from the wire JSON or the model's decoder rejects it; direct violations (oracle_code 900) = the Go round trip returned a different statement, with both renderings",
}

PROPS["C16"] = {
    "harness": "c16",
    "props_files": ["C16/Props.v"],
    "n": {"quick": 400, "thorough": 8000},
    "level_text": "Theorems (Coq, no axioms): the sort + two-pointer de-duplication yields a strictly key-sorted tag list with exactly the keys sent and, per key, one of the values sent; it is invariant under any permutation of the tags when repeated keys carry equal values; routing by (shard, family time) is a partition of the batch whose group key depends on the row alone; the eviction predicate is exactly 'outside the write window'. Tied to the code by sending generated metrics through the real protobuf, flat and line-protocol ingestion paths and comparing the stored rows, the validation verdict (error kind) and the shard/family groups of whole batches with the model; tags hash and jump hash are recomputed independently.",
    "level_note": "Trusted: xxhash and jump hash are library functions (abstract in the model; the harness checks hash = xxhash(concat(stored tags)) and shard = jump(hash) on every row), the three wire parsers are validated not modelled, family time comes from the C13 model.",
    "rule": "metrics with 0-7 tags from pools with shared prefixes, unicode, '=' and ',' inside values, repeated keys with equal or different values, enriched tags, every simple field type, histograms, and a malformed stream (12 kinds: empty/too long names, empty tag parts, limits, NaN/Inf, bad histograms); batches of 1-40 rows over 1-9 shards with timestamps in one family, across hour/day boundaries and outside the write window; non-trivial = tags out of order or a repeated key (conversion), >= 2 shards and >= 2 families hit and >= 1 evicted row (batch); distinct = different JSON",
    "trusted": ["modelled abstractly: cespare/xxhash, go-jump-consistent-hash (results recomputed by the harness with the same libraries), protobuf/flatbuffers codecs, lindb/common RowBuilder (the flat and line-protocol paths build rows with it)"],
    "assumptions": ["tag-order invariance is claimed for tag lists whose repeated keys carry equal values (for different values under one key a permutation changes which one is last)", "sort.Sort is not stable for more than 12 elements: for a repeated key with different values the oracle demands one of the sent values, not a particular one"],
    "replay_help": "case.kind convert-*: the metric sent; correspondence_code 1 = stored tag list differs from canon(sent) or the validation verdict differs; oracle_code 1 = stored tags not strictly sorted / a key missing / a value never sent; oracle_code 900 = a direct check failed (name, namespace, timestamp, field, hash of stored tags, tag-order invariance), see observed; case.kind route: rows with (id, ts, hash, shard), shard count, interval, window",
}

PROPS["C14"] = {
    "harness": "c14",
    "props_files": ["C14/Props.v"],
    "n": {"quick": 240, "thorough": 4000},
    "timeout": {"quick": 900, "thorough": 3000},
    "level_text": "Theorems (Coq, no axioms, all unbounded in the sequence): XOR float codec round trip at value, bit and byte level for every sequence of 64-bit words; bit.Writer as a state machine equals appending bits plus zero padding; the time-series block (slot bits interleaved with XOR values, uint16 header) decodes to exactly the slots/values for every slot pattern; uvarint/varint/zig-zag round trips; delta bit packing round trip at byte level with int32 wrap-around for reset and never-reset encoders; fixed-width offset tables at byte level for all offsets < 2^32. Tied to the code byte-exactly: the model must produce the same bytes as the real encoders (fresh, pooled, held-and-reused) and decode the real bytes; the real decoders (fresh, pooled, shared across tables of different widths) must return the encoded values sequentially and slot-addressed.",
    "level_note": "Trusted: roaring bitmap and snappy codecs are thin wrappers over libraries (round-tripped directly by the harness, not modelled); the model of sync.Pool reuse is 'reset = fresh', the reuse histories themselves are exercised on the Go side only.",
    "rule": "TSD blocks with 0-200 slots (dense, sparse, empty masks; special IEEE patterns incl. NaN payloads, +-0, subnormals, random bit patterns, slowly varying and constant series), start slots up to 65535, with/without header, encoder fresh/pooled/held-reused, decoder fresh/pooled/shared; delta sequences incl. int32 extremes; offset tables at width boundaries 255/256/65535/65536/2^24/2^32-1 with decoder reuse across widths; varints; bitmaps and snappy chunks (direct round trip). Non-trivial: TSD with >= 3 values and >= 1 empty slot; sequences with >= 3 elements; distinct = different JSON",
    "trusted": ["modelled abstractly / not modelled: lindb/roaring MarshalBinary/FromBuffer, klauspost snappy (round trip checked directly on every run)", "words are MSB-first bit lists in the theorems; the Z <-> bit list conversion of the correspondence check is zbits/bits_z (bits_z (zbits w z) = z mod 2^w is proved)"],
    "assumptions": ["a TSD block has at most 65535 slots and ends at or before slot 65535 (uint16 slot range)", "delta bit packing encodes at least one value (the format stores count-1)", "TSDDecoder slot-addressed reads are made for ascending consecutive slots (HasValueWithSlot only answers for the next slot)"],
    "replay_help": "case.kind tsd: start slot, slots (has, 64-bit pattern), with_time, encoder mode; correspondence_code 1 = model bytes differ from the encoder's bytes or the model cannot decode them; oracle_code 1 = the real decoder returned something else than what was encoded (sequential or slot-addressed); kinds delta / fixed-offset / varint analogous; bitmap / snappy are direct round trips (oracle_code 900)",
}

PROPS["C15"] = {
    "harness": "c15",
    "props_files": ["C15/Props.v"],
    "n": {"quick": 150, "thorough": 2500},
    "level_text": "Theorems (Coq, no axioms): whatever add/stream-write sequence is fed to the builder the accepted keys are strictly ascending and a rejected key changes nothing; lookup by rank + offset table returns exactly the added bytes (None for absent keys); iteration yields exactly the accepted entries in order; min/max/count are those of the accepted entries; merging any number of sorted inputs by repeatedly popping an input with a minimal head yields a permutation of all entries sorted by key; Load consults every file holding the key. Tied to the code with real table files (footer position, offset-table bytes via the C14 model, lookups, iteration, metadata), real merged iterators (exact output order against a concrete container/heap model) and Snapshot.Load on a real family.",
    "level_note": "Trusted: the roaring key bitmap is abstract (Contains/Rank by their specification; keys are compared through their rank order, so the 65536 container boundaries are exercised on the Go side only); the heap algorithm is executable in the model and compared for exact order, but the theorem is about the abstract 'pop a minimal head' relation; values larger than a few dozen bytes (up to 2 MiB) are verified directly by the harness.",
    "rule": "builder histories of 1-25 add/stream operations over dense runs, sparse keys, keys around multiples of 65536 and up to 2^31, with injected equal/smaller keys (18 %), values 0-24 bytes (stream writes in 0-2 chunks); probes = every key +-1 and 0/65535/65536; merges of 1-8 real tables sharing keys; Load over 1-5 flushed files with overlapping key ranges; non-trivial = keys crossing a 65536 boundary or a rejected key (tables), >= 2 inputs sharing a key (merges), key held by >= 2 files (loads); distinct = different JSON",
    "trusted": ["modelled abstractly: lindb/roaring (key set with Contains/Rank/iteration), mmap of the table file, bufio stream writer"],
    "assumptions": ["a stream write is the atomic triple Prepare, Write*, Commit (an uncommitted stream write followed by Add is outside intended use)", "table size < 4 GiB (uint32 positions)"],
    "replay_help": "case.kind table: ops with real keys; in the Coq case keys are replaced by their rank among all keys of the case; correspondence_code 1 = accepted flags, footer position, offset-table bytes or lookups differ from the model; oracle_code 1 = lookups/iteration/min/max/count differ from the entries accepted by the strictly-ascending rule; kind merge: inputs and the real merged output; kind load: files and key",
}

PROPS["C20"] = {
    "harness": "c20",
    "props_files": ["C20/Props.v"],
    "n": {"quick": 110, "thorough": 3000},
    "level_text": "Theorem (Coq, no axioms): for every strictly sorted key list of any size over any byte values, lookup in the logical trie that the builder constructs (terminator for a key ending at a node, grouping by next byte, one-way path compression into prefixes, single-key groups as label + suffix) equals lookup in the sorted list of pairs: present keys give their value, absent keys (proper prefixes, extensions, neighbours) give None. Tied to the code structurally: the model's trie, flattened level by level, must equal the real builder's label / has-child / louds / prefix / suffix / value vectors; and functionally: Get before and after serialisation, ordered iteration, Seek and prefix enumeration on the real succinct trie are compared with sorted-map semantics.",
    "level_note": "Trusted / validated only: the succinct navigation (rank/select tables, label search, iterator) is exercised and compared with the sorted-map results, not modelled (L2 of the design); the theorem covers the logical layer. TrieBucket merging is not yet covered.",
    "rule": "key sets of 1-40 keys over small alphabets incl. 0x00/0xFF/0xFE, with prefix chains, proper prefixes, shared suffixes and the empty key, plus 1.5k/5k-key sets checked directly; probes: every key, its proper prefix, extensions by 0x00/0xFF/b, last byte +1, empty key; prefix enumeration for the first 25 probes; non-trivial = >= 3 keys of which one is a proper prefix of another; distinct = different JSON",
    "trusted": ["pkg/trie rank/select/bit vectors (naive specification not modelled; results compared)"],
    "assumptions": ["keys are distinct and sorted bytewise before Build (the callers' contract)"],
    "statement_status": {"build_get": "proved (L1)", "l2_refines_l1": "not proved: covered by the structural comparison of the builder vectors and by functional comparison only", "seek_lower_bound": "refuted on the implementation for absent keys (known finding C20:seek-absent-key-lands-on-predecessor)", "build_single_empty_key": "refuted (known finding C20:single-empty-key)"},
    "replay_help": "case.keys = sorted (key bytes, value) pairs; correspondence_code 1 = the builder's level vectors, Get or iteration differ from the model's logical trie, 2 = the model cannot build this key set; oracle_code 1 = Get (in memory or loaded), iteration or prefix enumeration differ from the sorted map, or Seek lands neither on the lower bound nor on the predecessor; 101 = Seek landed on the predecessor of an absent key (known finding); 900 = build/serialise failure, see observed",
}

PROPS["C06"] = {
    "harness": "c06",
    "props_files": ["C06/Props.v"],
    "n": {"quick": 150, "thorough": 3000},
    "level_text": "Theorems (Coq, no axioms) over the history machine of the fan-out queue: for EVERY history of append / consume / ack / set-consumed (inside the window) / sync / gc / create / stop / reopen over any groups, every existing and every stopped group has -1 <= ack <= consumed <= appended; consume hands out consumed+1 or nothing; an ack outside [ack, consumed] changes nothing; the queue ack is monotone and, when it moves, bounded by appended and by every existing group's ack; GC never makes a sequence above the queue ack unreadable; reopen preserves positions. Tied to the code by replaying generated histories on a real queue directory and comparing all positions, consume results and Get-readability probes after every operation.",
    "level_note": "Trusted: the model abstracts the mmap pages to positions and an index-page floor (messages are small, data pages are never truncated in these histories); concurrent consume-vs-ack is not exercised (operations are applied one at a time).",
    "rule": "histories of 10-70 operations over up to 4 groups (25 % of acks outside the window, consume on an empty queue via Pause, stop + re-create, reopen, a few histories crossing the 262144-entry index page so that GC really removes a page); non-trivial = >= 1 append, >= 2 groups, a consume, and a stop/reopen/sync-with-two-groups after a consume; distinct = different JSON",
    "trusted": ["partial: the interleaving of one consumer and one acker on a group is not modelled; sync.RWMutex regions are assumed atomic"],
    "assumptions": ["set-consumed is issued inside [ack, appended] (the property's 'outside an explicit index reset')", "a new group starts at (-1, -1), not at the queue ack: messages at or below the queue ack are not readable for it (noted in DESIGN.md; the statement bounds the queue ack by the groups existing when it moves)"],
    "replay_help": "case.ops is the operation list (groups are numbered); correspondence_code k = the first operation (1-based) after which positions / consume result / readability differ from the model; oracle_code k = first operation after which the implementation's own observations violate ordering, monotonicity, the ack window, the bound of the queue ack, or readability above the queue ack",
}

PROPS["C05"] = {
    "harness": "c05",
    "props_files": ["C05/Props.v"],
    "n": {"quick": 100, "thorough": 1500},
    "timeout": {"quick": 1200, "thorough": 3400},
    "level_text": "Theorem (Coq, no axioms): refinement of the queue (linear data addresses with page roll-over, index entries, persisted meta, volatile cursor) to an abstract log: for EVERY history of appends of any size up to the page size, crashes at any store of an append (torn copy, after the copy, inside or after the index entry, after the meta store) and reopens, every message of the log is read back under its own sequence number with its own content, sequence numbers are dense, and the log only grows at its end. Appends are serialised (the fix: commit), so interleavings of concurrent appenders collapse to sequential histories. Tied to the code by replaying generated histories on a real queue directory whose mapped pages are wrapped so that the process is killed between the individual stores, then reopening and reading every sequence.",
    "level_note": "Trusted: store order to the shared mapping is program order (process death, not power loss); the model abstracts bytes to message identities (the harness compares the bytes and reports which message was read); free-running concurrency is exercised only through the forced hold of one appender between alloc and copy.",
    "rule": "histories of 3-25 operations: appends of 1-64 B, 1 KB-300 KB, and (a few per run) 60-128 MiB messages aimed at the page remainder (fits exactly / one byte too many), crashes before each of the five stores of an append, in the middle of the copy and after the meta store, reopens; plus overlapping-appender schedules (A held between alloc and copy while B appends, then reopen + append); non-trivial = >= 3 appends with >= 2 sizes and >= 1 crash; distinct = different JSON",
    "trusted": ["partial: free-running interleavings of the real code are sampled only through the forced schedule; the all-schedules claim rests on the single mutex held over Put (checked by the schedule being infeasible: B cannot complete inside A's window)"],
    "assumptions": ["messages have at least one byte in the model (empty messages are not generated)", "the queue's acknowledged position stays below the messages read (no GC in these histories; C06 covers it)"],
    "replay_help": "case.ops: put(id,len) / crash(id,len,point) / reopen; correspondence_code 1 = appended position after some operation or a Get result differs from the model; oracle_code 1 = the reads are not exactly the abstract log (a completed append unreadable, altered, or an extra sequence readable)",
}

PROPS["C09"] = {
    "harness": "c09",
    "props_files": ["C09/Props.v"],
    "n": {"quick": 150, "thorough": 2000},
    "timeout": {"quick": 1200, "thorough": 3400},
    "level_text": "Theorem (Coq, no axioms): the name dictionaries of the metadata and index databases (namespaces, metric names, tag keys, tag values, fields, series) as a history machine over mutable / immutable / persisted entries, the counters and their synced copy, PrepareFlush, the five steps of MetricMetaDatabase.Flush as separate steps, the index database's PrepareFlush/Flush, and crashes at any point between steps. For EVERY history inside the flush discipline (Flush is started after PrepareFlush; no new tag key enters a schema between the counter sync and the schema step of a running flush - sequential callers are proved to be inside it): asking again returns the same id, two names never share an id (database-wide for counter-based kinds, per metric for fields and series), a crash keeps exactly the persisted entries with their ids, and an id handed out after recovery is above every recovered id of its kind. A second theorem covers every schedule of concurrent get-or-create callers of one dictionary (lookup and create as separate micro-steps, create re-checking under the lock). Outside the discipline the statement is refuted in the model with a concrete history, which the harness replays on the real database (known finding). Tied to the code by replaying generated histories and forced schedules on real databases.",
    "level_note": "Field ids are modelled as one above the largest field id of the schema where the code takes len(schema.Fields); the two agree while field ids are 0..n-1, which the correspondence exercises (crash histories included) but the proof does not establish. The index database's Flush is one atomic step in the model (no crash points inside it). A crash is a copy of the database directories (process death; completed file writes survive).",
    "rule": "histories of 8-40 API steps over pools of 3 namespaces (two sharing a bucket), 4 metric names, 3 tag keys, 4 tag values, 3 fields, 5 tag sets: get-or-create of each kind, series creation, PrepareFlush, index PrepareFlush/Flush, MetricMetaDatabase.Flush with up to 3 concurrent-caller steps at each of its 4 scheduling points (metric, field, tag value, PrepareFlush, lookup; new tag keys only after the schema step) and a crash image taken at one of them in 25% of flushes, crashes and clean reopen at step boundaries, read-back of every pool name after each recovery and at the end; directed histories: empty PrepareFlush+Flush first, crash right after the counter sync, and the undisciplined tag-key schedule; one third of the cases are forced schedules of 2-3 concurrent GenMetricID callers (1-4 names each out of 4) advanced micro-step by micro-step through the scheduling point before createValue; non-trivial = history with a flush, a crash/reopen and a metric or series (or a schedule where two callers ask for the same name); distinct = different JSON",
    "trusted": ["partial: free-running interleavings are not explored; concurrency enters through forced schedules at the scheduling points (before createValue in the index key-value store; between the steps of MetricMetaDatabase.Flush), and the all-schedules theorem is about the micro-step model of get-or-create",
                "overlapping Flush calls, crash points inside the index database's Flush and inside a single store's table write are not modelled"],
    "assumptions": ["run_ok init ops = true (flush discipline) in the injectivity / no-reuse theorems; C09_sequential_is_disciplined shows callers that do not overlap a flush satisfy it, C09_reuse_outside_discipline_refuted shows it cannot be dropped"],
    "statement_status": {"ids_injective / no_reuse_after_crash": "proved inside the flush discipline", "outside the discipline": "refuted (C09_reuse_outside_discipline_refuted; known finding C09:tagkey-created-between-counter-sync-and-schema-flush)", "field ids dense": "not proved (model takes max+1; correspondence only)"},
    "replay_help": "case.steps: API steps (flush carries the steps run at its scheduling points); case.model_ops: the model operations with what was observed (Some (Some id) / Some None = not found / None = not observed). correspondence_code n>0 = the n-th model operation's result differs from the implementation (800 = the history is not on the expected side of the flush discipline); oracle_code 101 = the id of a name changed while the node ran, 102 = two names share an id, 103 = a recovered name came back with another id, 104 = a name known to this run disappeared, 110 = concurrent callers disagree",
}

PROPS["C10"] = {
    "harness": "c10",
    "props_files": ["C10/Props.v"],
    "n": {"quick": 120, "thorough": 1500},
    "timeout": {"quick": 1200, "thorough": 3400},
    "level_text": "Theorem (Coq, no axioms): the tag-value dictionary, the inverted postings and the forward index are built from ANY list of series with distinct ids; for EVERY condition of the grammar (equals, in, like, regex as atomic filters; negation of an atomic filter; and; or; parentheses) the series selected through dictionary -> value ids -> postings (negation = series having the key minus matches) are exactly the written series whose own tags satisfy the condition, and group-by through forward index and dictionary returns each series' own value of every grouping key. Each structure is a list of layers (mutable, immutable, files); any placement of PrepareFlush / flush / compaction between the writes leaves every answer unchanged (layers_irrelevant). Tied to the code by writing series through the real metadata and index databases with such placements, parsing conditions from SQL text with the real parser and running the real operators (tag values lookup, series filtering, grouping context build, BuildGroup).",
    "level_note": "Regex filters enter the model as the set of pool values Go's regexp matches (same call as the index makes). Like patterns follow index/kv_store.go FindValuesByLike. Trie buckets, table files and bitmaps are the real ones (C20, C15 cover their models). Queries naming a tag key unknown to the schema are rejected by the lookup operator and are not generated.",
    "rule": "per case 3-14 series of one metric over 3 tag keys (each present with probability 65%) and 14 values (shared prefixes, multi-byte, a comma, a leading tilde), a second metric sharing keys and values, 2-6 queries with conditions of depth <= 3 over 8 atomic filter kinds and group by 0-2 keys, placed between writes together with PrepareFlush / flush / compaction of the dictionary, inverted and forward families; one case per quick run (6 per thorough run) inserts ~65536 filler series so that series ids straddle the bitmap container boundary; directed cases: two filters with equal rewritten text, like '*', negations over every layer; non-trivial = a query with >= 2 atomic filters of which one negated or non-equality, a series lacking a key, and a selected set that is neither empty nor everything; distinct = different JSON",
    "trusted": ["partial: a query running concurrently with a flush (snapshot taken before, memory read after the flush completes) is not explored; placements are between operations"],
    "assumptions": ["series ids distinct (NoDup) and one value per tag key in a series (keys_distinct) - both hold for what GenSeriesID is given"],
    "replay_help": "case.series: written series (id, tags by key index), case.queries: SQL text, group-by keys, selected ids and per-series group values as returned, case.hops: model history. correspondence_code 1 = selected set differs from the model's index evaluation, 2 = group values differ; oracle_code 101 = selected set differs from evaluating the condition on every series' tags, 102 = group values differ from the series' own values, 900 = the query failed or panicked",
}

PROPS["C08"] = {
    "harness": "c08",
    "props_files": ["C08/Props.v"],
    "n": {"quick": 100, "thorough": 1500},
    "timeout": {"quick": 1200, "thorough": 3400},
    "level_text": "Theorem (Coq, no axioms): the replication channel of one WAL partition as a state machine - leader log, follower log, the leader-side consumer group of the follower, replicator state, stream, follower liveness - with the three-way handshake of IsReady coded case by case, Consume / GetMessage / Send / ReplicaLog / Recv / Ack of one replica step, and the faults: Send failure, Recv failure, follower restart, follower log loss, leader directory restored from an older copy (lost tail), follower offline/online with a blocked step, leader GC. For EVERY sequence of these events inside the discipline (no leader append between a tail loss and the next completed handshake): every position both sides hold has the same bytes, everything the follower holds is what the leader stored at that position, the follower's range has no holes, the leader's group never acknowledges beyond what the follower ever appended, and a completed handshake leaves the next index to send equal to the first position the follower lacks, held by the leader, with the follower not ahead of the leader's log. Tied to the code by driving a real leader partition (fan-out queue + remote replicator) and a real follower partition behind the real ReplicaHandler one replica step at a time over an in-process stream with injected failures.",
    "level_note": "Logs are the abstract logs of C05/C06 (held range = (ack, appended]); message bytes are abstracted to message identities (the harness writes the identity into the bytes and compares what Get returns). Outside the discipline the statement is refuted in the model (C08_diverge_after_tail_loss_refuted) and replayed on the code as a known finding: positions carry no epoch.",
    "rule": "histories of 10-60 events: leader append 28%, replica step 40% (Send fails 12%, Recv fails 12%), explicit handshake, follower restart 5%, follower log loss 4%, leader GC 5%, leader snapshot 4% / restore 4%, follower offline 3% / online 3% (a step issued while the follower is offline and the replicator not ready blocks and completes at the next online event); directed histories: follower exactly one message ahead of a restored leader, writes at the lost positions before the handshake (undisciplined), follower log loss after leader GC, blocked step; after every event both logs are read at every position from -1 to max(appended)+2 and all positions of queue, group and replicator state are recorded; non-trivial = appends, steps and >= 2 kinds of fault; distinct = different JSON",
    "trusted": ["partial: the free-running replica loop and real gRPC transport are replaced by single steps over an in-process stream; a follower Put error and IgnoreMessage paths are modelled but not provoked"],
    "assumptions": ["run_ok true init evs = true (no leader append between LeaderRestore and the next completed handshake)"],
    "statement_status": {"follower_copy_safe": "proved inside the discipline", "outside": "refuted (known finding C08:tail-loss-then-writes-diverge)", "comparison before the repair": "refuted (C08_one_ahead_unrepaired_refuted; fixed in the code)"},
    "replay_help": "case.events: append / step(send_ok, recv_ok) / handshake / frestart / flose / gc / snapshot / restore / offline / online. correspondence_code n>0 = after the n-th event some position of queue/group/replicator state or a read differs from the model (800: history on the wrong side of the discipline); oracle_code 101 = both sides read different bytes at one position, 102 = the follower's readable range has a hole, 103 = the follower holds bytes the leader never stored at that position, 104 = the leader group acknowledged a position the follower was never seen holding, 105 = after a completed handshake the group's consumed position is not the follower's appended position",
}

for _pid in PROPS:
    NOT_APPLICABLE.pop(_pid, None)
