#!/usr/bin/env python3
"""Self-validation helper (not part of any registered check).
   recheck_seed.py <seed-name> "<note>" : applies seeded/<seed-name>/patch.diff to /repo, runs the property's quick check,
   reverts /repo, and records the result in the seed's meta.json (the first result is kept as first_check_result)."""
import json, os, subprocess, sys
ROOT = os.path.dirname(os.path.dirname(os.path.abspath(__file__)))
name = sys.argv[1]; note = sys.argv[2] if len(sys.argv) > 2 else ""
pid = name[:3]
d = os.path.join(ROOT, "seeded", name)
meta = json.load(open(os.path.join(d, "meta.json")))
evf = os.path.join(ROOT, "evidence", pid + ".json")
evsave = open(evf).read() if os.path.exists(evf) else None
assert subprocess.run(["git", "-C", "/repo", "status", "--short"], stdout=subprocess.PIPE, text=True).stdout.strip() == "", "/repo not clean"
assert subprocess.run(["git", "-C", "/repo", "apply", os.path.join(d, "patch.diff")]).returncode == 0
try:
    p = subprocess.run(["python3", "tools/check.py", pid, "--tier", "quick"], cwd=ROOT, stdout=subprocess.PIPE, stderr=subprocess.STDOUT, text=True, timeout=3000)
finally:
    subprocess.run(["git", "-C", "/repo", "checkout", "--", "."])
    if evsave is not None:
        open(evf, "w").write(evsave)
lines = [l for l in p.stdout.split("\n") if "VIOLATION" in l or "broken:" in l][:8]
if "first_check_result" not in meta and meta.get("check_result", {}).get("exit") == 0:
    meta["first_check_result"] = dict(meta["check_result"], note="missed")
meta["check_result"] = {"cmd": "python3 tools/check.py %s --tier quick" % pid, "exit": p.returncode, "lines": lines, "note": note}
json.dump(meta, open(os.path.join(d, "meta.json"), "w"), indent=1)
print(name, "exit", p.returncode); print("\n".join(l[:200] for l in lines)); print(p.stdout.strip().split("\n")[-1][:200])
