#!/usr/bin/env python3
"""Self-validation helper (not part of any registered check).
   recheck_seed.py <seed-name> "<note>" : applies seeded/<seed-name>/patch.diff to a scratch copy of /repo
   (tools/seedrun.py; /repo itself is never touched), runs the property's quick check on the copy, and records the result in the seed's meta.json (the first result is kept as first_check_result)."""
import json, os, subprocess, sys
ROOT = os.path.dirname(os.path.dirname(os.path.abspath(__file__)))
name = sys.argv[1]; note = sys.argv[2] if len(sys.argv) > 2 else ""
pid = name[:3]
d = os.path.join(ROOT, "seeded", name)
meta = json.load(open(os.path.join(d, "meta.json")))
sys.path.insert(0, os.path.join(ROOT, "tools"))
from seedrun import check_with_patch  # noqa: E402
st, rcode, out = check_with_patch(pid, os.path.join(d, "patch.diff"), "quick", 3000)
assert st == "ran", out
lines = [l for l in out.split("\n") if "VIOLATION" in l or "broken:" in l][:8]
if "first_check_result" not in meta and meta.get("check_result", {}).get("exit") == 0:
    meta["first_check_result"] = dict(meta["check_result"], note="missed")
meta["check_result"] = {"cmd": "python3 tools/check.py %s --tier quick" % pid, "exit": rcode, "lines": lines, "note": note}
json.dump(meta, open(os.path.join(d, "meta.json"), "w"), indent=1)
print(name, "exit", rcode); print("\n".join(l[:200] for l in lines)); print(out.strip().split("\n")[-1][:200])
