#!/bin/sh
# Run the quick (default) or thorough check of every claimed property, one after the other; prints one line per property.
tier=${1:-quick}
cd "$(dirname "$0")/.."
rc=0
for id in $(python3 -c "import sys; sys.path.insert(0,'tools'); import props; print(' '.join(sorted(props.PROPS)))"); do
  python3 tools/check.py $id --tier $tier > out/run_all_$id.log 2>&1
  r=$?
  tail -1 out/run_all_$id.log
  [ $r -ne 0 ] && { grep VIOLATION out/run_all_$id.log; rc=1; }
done
exit $rc
