#!/usr/bin/env python3
"""Apply every kept seeded change to /repo in turn, run the property's quick check, undo the change; prints one line per
seed (caught / MISSED / patch does not apply) and writes seeded/REGRESSION.json.  /repo must be clean."""
import json, os, subprocess, sys, glob, re
V = "/verif"
def sh(cmd, **kw): return subprocess.run(cmd, shell=True, capture_output=True, text=True, **kw)
if sh("git -C /repo status --porcelain").stdout.strip():
    print("refusing: /repo is not clean"); sys.exit(2)
only = sys.argv[1:]
res = {}
for d in sorted(glob.glob(V + "/seeded/C*")):
    name = os.path.basename(d)          # <ID> or <ID>-<k> for a further seed of the same property
    pid = name.split("-")[0]
    if only and pid not in only and name not in only: continue
    patch = d + "/patch.diff"
    a = sh(f"git -C /repo apply --check {patch}")
    if a.returncode != 0:
        res[name] = {"status": "patch-does-not-apply", "detail": a.stderr.strip()[:300]}
        print(name, "PATCH DOES NOT APPLY", a.stderr.strip()[:120]); continue
    sh(f"git -C /repo apply {patch}")
    evf = f"{V}/evidence/{pid}.json"
    evsave = open(evf).read() if os.path.exists(evf) else None
    try:
        r = sh(f"cd {V} && timeout 1500 python3 tools/check.py {pid} --tier quick")
    finally:
        sh("git -C /repo checkout -- . && git -C /repo clean -fdq -- cmd 2>/dev/null")
        if evsave is not None:   # the evidence file describes runs on the unchanged tree only
            open(evf, "w").write(evsave)
    lines = [l for l in r.stdout.splitlines() if not l.startswith("KNOWN-FINDING")]
    viol = [l for l in lines if l.startswith("VIOLATION")]
    broken = [l.strip() for l in lines if l.strip().startswith("broken:")]
    status = "caught" if r.returncode == 1 and viol else "MISSED"
    res[name] = {"status": status, "exit": r.returncode, "violation": viol[:1], "broken": broken}
    print(name, status, "|", "; ".join(b.replace("broken: ", "") for b in broken)[:200])
json.dump(res, open(V + "/seeded/REGRESSION.json", "w"), indent=1)
sys.exit(0 if all(v["status"] == "caught" for v in res.values()) else 1)
