#!/usr/bin/env python3
"""Apply every kept seeded change in turn to a scratch copy of /repo (tools/seedrun.py; /repo itself is never touched),
run the property's quick check on the copy; prints one line per seed (caught / MISSED / patch does not apply) and
writes seeded/REGRESSION.json.  /repo must be clean."""
import json, os, subprocess, sys, glob, re
V = "/verif"
sys.path.insert(0, V + "/tools")
from seedrun import check_with_patch  # noqa: E402
def sh(cmd, **kw): return subprocess.run(cmd, shell=True, capture_output=True, text=True, **kw)
if sh("git -C /repo status --porcelain").stdout.strip():
    print("refusing: /repo is not clean"); sys.exit(2)
only = sys.argv[1:]
res = {}
for d in sorted(glob.glob(V + "/seeded/C*")):
    name = os.path.basename(d)          # <ID> or <ID>-<k> for a further seed of the same property
    pid = name.split("-")[0]
    if only and pid not in only and name not in only: continue
    patch = d + "/patch.diff"
    st, rc, out = check_with_patch(pid, patch, "quick", 1500)
    if st != "ran":
        res[name] = {"status": "patch-does-not-apply", "detail": out.strip()[:300]}
        print(name, "PATCH DOES NOT APPLY", out.strip()[:120]); continue
    lines = [l for l in out.splitlines() if not l.startswith("KNOWN-FINDING")]
    viol = [l for l in lines if l.startswith("VIOLATION")]
    broken = [l.strip() for l in lines if l.strip().startswith("broken:")]
    status = "caught" if rc == 1 and viol else "MISSED"
    res[name] = {"status": status, "exit": rc, "violation": viol[:1], "broken": broken}
    print(name, status, "|", "; ".join(b.replace("broken: ", "") for b in broken)[:200])
allres = {}
if only and os.path.exists(V + "/seeded/REGRESSION.json"):      # a partial run updates its own entries only
    allres = json.load(open(V + "/seeded/REGRESSION.json"))
allres.update(res)
json.dump(allres, open(V + "/seeded/REGRESSION.json", "w"), indent=1)
sys.exit(0 if all(v["status"] == "caught" for v in res.values()) else 1)
