#!/usr/bin/env python3
"""Self-validation helper (not part of any registered check): run a property's check on a scratch copy of /repo with a
seeded change applied.  /repo itself is never modified - an interrupted run (a killed session) once left a seed applied
in /repo's working tree, which then looked like a defect of the unchanged tree (DESIGN.md 0.5).  The scratch copy lives
under /tmp (outside /repo and /verif), is removed when the run ends, and stale copies of killed runs are removed at the
next start.  The check is pointed at the copy with VERIF_REPO; it then writes its evidence and replay under out/alt/."""
import glob, os, shutil, subprocess, tempfile
ROOT = os.path.dirname(os.path.dirname(os.path.abspath(__file__)))
PREFIX = "/tmp/verif-seed-repo."


def sh(cmd, cwd=None, timeout=None, env=None):
    try:
        p = subprocess.run(cmd, shell=True, cwd=cwd, timeout=timeout, env=env, stdout=subprocess.PIPE,
                           stderr=subprocess.STDOUT, text=True, errors="replace")
        return p.returncode, p.stdout
    except subprocess.TimeoutExpired as e:
        out = e.stdout if isinstance(e.stdout, str) else (e.stdout or b"").decode(errors="replace")
        return 124, out + "\n[timeout]"


def check_with_patch(pid, patch, tier="quick", timeout=3000):
    """-> (status, exit code, output); status is 'ran' or 'patch-does-not-apply'."""
    for old in glob.glob(PREFIX + "*"):
        if not _alive(old):          # left by a killed run
            shutil.rmtree(old, ignore_errors=True)
    scratch = tempfile.mkdtemp(prefix=PREFIX)
    try:
        open(os.path.join(scratch, ".pid"), "w").write(str(os.getpid()))
        rc, o = sh("rsync -a --exclude .git /repo/ %s/" % scratch)      # the working tree as it is now
        assert rc == 0, o
        rc, o = sh("git apply --check %s" % patch, cwd=scratch)
        if rc != 0:
            return "patch-does-not-apply", rc, o
        rc, o = sh("git apply %s" % patch, cwd=scratch)
        assert rc == 0, o
        env = dict(os.environ, VERIF_REPO=scratch)
        rc, o = sh("python3 tools/check.py %s --tier %s" % (pid, tier), cwd=ROOT, timeout=timeout, env=env)
        return "ran", rc, o
    finally:
        shutil.rmtree(scratch, ignore_errors=True)


def _alive(d):
    try:
        pid = int(open(os.path.join(d, ".pid")).read())
        os.kill(pid, 0)
        return True
    except Exception:
        return False


if __name__ == "__main__":
    import sys
    st, rc, o = check_with_patch(sys.argv[1], os.path.abspath(sys.argv[2]), *(sys.argv[3:4]))
    print(st, "exit", rc); print(o[-3000:])
