#!/bin/sh
# Build the framework from files on disk only (offline): Coq development (full .vo) and all Go harness drivers.
set -e
cd "$(dirname "$0")/.."
export GOFLAGS=-mod=mod GOPROXY=off GOSUMDB=off GOTOOLCHAIN=local CGO_ENABLED=0
mkdir -p out evidence replays harness/bin
( cd coq && coq_makefile -f _CoqProject -o Makefile >/dev/null && timeout 3000 make -j16 >../out/coq-build.log 2>&1 ) || { tail -30 out/coq-build.log; echo "coq build failed"; exit 1; }
cp /repo/go.sum harness/go.sum
( cd harness && for d in c*/; do d=${d%/}; go build -tags verif -o bin/$d ./$d || echo "harness $d does not build (reported by its check)"; done )
echo setup-ok
