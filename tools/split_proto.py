#!/usr/bin/env python3
"""One-off helper used while porting the design-phase prototypes: splits a .v file into
definitions (Model) and lemmas with proofs (Proofs). Line-based: a block starts at a top-level keyword."""
import re, sys
KW_DEF = ("Definition", "Fixpoint", "Inductive", "Record", "Notation", "Arguments", "CoInductive", "Coercion")
KW_IMP = ("From", "Require", "Import", "Open", "Close", "Ltac Zify")
KW_LEM = ("Lemma", "Theorem", "Example", "Corollary", "Fact", "Remark")
def split(src):
    lines = src.split("\n")
    blocks, cur = [], []
    starts = KW_DEF + KW_IMP + KW_LEM + ("Ltac", "Print", "Opaque", "Transparent", "Hint", "Local", "Global", "Section", "End", "Variable", "Context", "(* ----")
    for l in lines:
        if any(l.startswith(k) for k in starts) and cur and not in_proof(cur):
            blocks.append(cur); cur = []
        cur.append(l)
    if cur: blocks.append(cur)
    model, proofs = [], []
    for b in blocks:
        head = b[0]
        txt = "\n".join(b)
        if head.startswith("Print Assumptions"):
            continue
        if any(head.startswith(k) for k in KW_IMP):
            model.append(txt); proofs.append(txt)
        elif any(head.startswith(k) for k in KW_DEF) and "Proof." not in txt:
            model.append(txt)
        elif head.startswith(("Section", "End", "Variable", "Context")):
            model.append(txt); proofs.append(txt)
        else:
            proofs.append(txt)
    return "\n".join(model) + "\n", "\n".join(proofs) + "\n"
def in_proof(cur):
    txt = re.sub(r"\(\*.*?\*\)", "", "\n".join(cur), flags=re.S)
    # inside a lemma whose proof has not ended yet
    if re.search(r"(?m)^(Lemma|Theorem|Example|Corollary|Fact|Remark|Fixpoint .*\n?Proof)", txt) or "Proof." in txt:
        return not re.search(r"(Qed|Defined|Abort)\.\s*$", txt.strip())
    return False
if __name__ == "__main__":
    m, p = split(open(sys.argv[1]).read())
    open(sys.argv[2], "w").write(m); open(sys.argv[3], "w").write(p)
